package main

import (
	"bufio"
	"fmt"
	"go/ast"
	"os"
	"path/filepath"
	"reflect"
	"sort"
	"strings"

	"github.com/goreleaser/nfpm/v2"
)

// ---------- G5: reflected key tree of nfpm.Config ----------

type keyPath struct {
	yaml, json, kind, enum string
	omitempty              bool
}

func tagName(tag string) (name string, opts []string) {
	parts := strings.Split(tag, ",")
	return parts[0], parts[1:]
}

func walkType(t reflect.Type, ypfx, jpfx string, out *[]keyPath, depth int) {
	walkTypeE(t, ypfx, jpfx, out, depth, true)
}

func walkTypeE(t reflect.Type, ypfx, jpfx string, out *[]keyPath, depth int, emitSelf bool) {
	if depth > 12 {
		return
	}
	switch t.Kind() {
	case reflect.Ptr:
		walkTypeE(t.Elem(), ypfx, jpfx, out, depth+1, emitSelf)
	case reflect.Struct:
		if t.String() == "time.Time" {
			*out = append(*out, keyPath{yaml: ypfx, json: jpfx, kind: "time"})
			return
		}
		if ypfx != "" && emitSelf {
			*out = append(*out, keyPath{yaml: ypfx, json: jpfx, kind: "object"})
		}
		for i := 0; i < t.NumField(); i++ {
			f := t.Field(i)
			if f.PkgPath != "" { // unexported
				continue
			}
			yn, yo := tagName(f.Tag.Get("yaml"))
			jn, _ := tagName(f.Tag.Get("json"))
			inline := false
			for _, o := range yo {
				if o == "inline" {
					inline = true
				}
			}
			if yn == "-" {
				continue
			}
			if inline {
				walkTypeE(f.Type, ypfx, jpfx, out, depth+1, false)
				continue
			}
			if yn == "" {
				yn = strings.ToLower(f.Name)
			}
			if jn == "" {
				jn = f.Name
			}
			yp, jp := yn, jn
			if ypfx != "" {
				yp, jp = ypfx+"."+yn, jpfx+"."+jn
			}
			before := len(*out)
			walkType(f.Type, yp, jp, out, depth+1)
			if len(*out) > before {
				kp := &(*out)[before]
				for _, o := range yo {
					if o == "omitempty" {
						kp.omitempty = true
					}
				}
				var enums []string
				for _, p := range strings.Split(f.Tag.Get("jsonschema"), ",") {
					if strings.HasPrefix(p, "enum=") {
						enums = append(enums, strings.TrimPrefix(p, "enum="))
					}
				}
				if len(enums) > 0 {
					kp.enum = strings.Join(enums, "\x1f")
				}
			}
		}
	case reflect.Slice:
		*out = append(*out, keyPath{yaml: ypfx, json: jpfx, kind: "list"})
		walkType(t.Elem(), ypfx+".[]", jpfx+".[]", out, depth+1)
	case reflect.Map:
		*out = append(*out, keyPath{yaml: ypfx, json: jpfx, kind: "map"})
		walkType(t.Elem(), ypfx+".{}", jpfx+".{}", out, depth+1)
	case reflect.String:
		*out = append(*out, keyPath{yaml: ypfx, json: jpfx, kind: "string"})
	case reflect.Bool:
		*out = append(*out, keyPath{yaml: ypfx, json: jpfx, kind: "bool"})
	case reflect.Int, reflect.Int64, reflect.Int32, reflect.Uint32, reflect.Uint64, reflect.Uint:
		*out = append(*out, keyPath{yaml: ypfx, json: jpfx, kind: "int"})
	case reflect.Func:
	default:
		*out = append(*out, keyPath{yaml: ypfx, json: jpfx, kind: "other:" + t.Kind().String()})
	}
}

func configKeyPaths() []keyPath {
	var out []keyPath
	walkType(reflect.TypeOf(nfpm.Config{}), "", "", &out, 0)
	return out
}

// goSelToYaml maps "Deb.Signature.KeyID" / "Overrides[].Conflicts" to a yaml path.
func goSelToYaml(sel string) string {
	t := reflect.TypeOf(nfpm.Config{})
	var parts []string
	for _, seg := range strings.Split(sel, ".") {
		idx := strings.HasSuffix(seg, "[]")
		seg = strings.TrimSuffix(seg, "[]")
		for t.Kind() == reflect.Ptr {
			t = t.Elem()
		}
		if t.Kind() != reflect.Struct {
			return "?" + sel
		}
		f, ok := t.FieldByName(seg)
		if !ok {
			return "?" + sel
		}
		yn, _ := tagName(f.Tag.Get("yaml"))
		if yn == "" {
			yn = strings.ToLower(f.Name)
		}
		parts = append(parts, yn)
		t = f.Type
		if idx {
			for t.Kind() == reflect.Ptr {
				t = t.Elem()
			}
			switch t.Kind() {
			case reflect.Map:
				parts = append(parts, "{}")
				t = t.Elem()
			case reflect.Slice:
				parts = append(parts, "[]")
				t = t.Elem()
			}
		}
	}
	return strings.Join(parts, ".")
}

func genKeyTree() (string, error) {
	kps := configKeyPaths()
	var b strings.Builder
	b.WriteString("import NfpmModel.Bytes\nnamespace Nfpm.Generated\nopen Nfpm\n")
	b.WriteString("/-- every key path the strict parser defines: (yaml path, kind) -/\n")
	b.WriteString("def keyPaths : List (Bytes × Bytes) := [\n")
	for i, k := range kps {
		sep := ","
		if i == len(kps)-1 {
			sep = ""
		}
		fmt.Fprintf(&b, "  (%s, %s)%s\n", leanStr(k.yaml), leanStr(k.kind), sep)
	}
	b.WriteString("]\n")
	b.WriteString("/-- key paths whose yaml and json names differ -/\n")
	var diff []string
	for _, k := range kps {
		if k.yaml != k.json {
			diff = append(diff, k.yaml+" vs "+k.json)
		}
	}
	fmt.Fprintf(&b, "def yamlJsonNameMismatches : List Bytes := %s\n", leanStrList(diff))
	b.WriteString("/-- `jsonschema:\"enum=…\"` struct tags: (yaml path, values) -/\n")
	b.WriteString("def tagEnums : List (Bytes × List Bytes) := [")
	first := true
	for _, k := range kps {
		if k.enum == "" {
			continue
		}
		if !first {
			b.WriteString(", ")
		}
		first = false
		fmt.Fprintf(&b, "(%s, %s)", leanStr(k.yaml), leanStrList(strings.Split(k.enum, "\x1f")))
	}
	b.WriteString("]\n")
	b.WriteString("end Nfpm.Generated\n")
	return b.String(), nil
}

// ---------- G4: fields passed through os.Expand ----------

func unwrapArg(e ast.Expr) ast.Expr {
	for {
		switch x := e.(type) {
		case *ast.CallExpr:
			if len(x.Args) == 1 && strings.HasPrefix(fullSel(x.Fun), "pointer.") {
				e = x.Args[0]
				continue
			}
			return e
		case *ast.ParenExpr:
			e = x.X
			continue
		}
		return e
	}
}

// selWithIndex renders c.Overrides[or].Conflicts as "Overrides[].Conflicts"
func selWithIndex(e ast.Expr) string {
	switch x := e.(type) {
	case *ast.SelectorExpr:
		l := selWithIndex(x.X)
		if l == "" {
			return x.Sel.Name
		}
		return l + "." + x.Sel.Name
	case *ast.IndexExpr:
		return selWithIndex(x.X) + "[]"
	case *ast.Ident:
		return ""
	}
	return "?"
}

func genExpandReal() (string, error) {
	s, err := parse("nfpm.go")
	if err != nil {
		return "", err
	}
	fd := s.funcDecl("expandEnvVars")
	if fd == nil {
		return "", fmt.Errorf("expandEnvVars not found")
	}
	// calls whose argument is the value variable of an enclosing range statement
	rangedCall := map[*ast.CallExpr]string{}
	ast.Inspect(fd, func(n ast.Node) bool {
		rs, ok := n.(*ast.RangeStmt)
		if !ok {
			return true
		}
		v, ok := rs.Value.(*ast.Ident)
		if !ok {
			return true
		}
		ast.Inspect(rs.Body, func(m ast.Node) bool {
			if ce, ok := m.(*ast.CallExpr); ok && len(ce.Args) > 0 {
				if id, ok := unwrapArg(ce.Args[0]).(*ast.Ident); ok && id.Name == v.Name {
					rangedCall[ce] = selWithIndex(rs.X) + "[]"
				}
			}
			return true
		})
		return true
	})
	rangeOf := map[string]string{}
	var scalars, slices, contents, literals []string
	ast.Inspect(fd, func(n ast.Node) bool {
		ce, ok := n.(*ast.CallExpr)
		if !ok || len(ce.Args) == 0 {
			return true
		}
		if sel, ok := rangedCall[ce]; ok && fullSel(ce.Fun) == "os.Expand" {
			scalars = append(scalars, goSelToYaml(sel))
			return true
		}
		fn := fullSel(ce.Fun)
		arg := unwrapArg(ce.Args[0])
		var sel string
		if lit, ok := unquote(arg); ok {
			if fn == "os.Expand" {
				literals = append(literals, lit)
			}
			return true
		}
		if id, ok := arg.(*ast.Ident); ok {
			sel = rangeOf[id.Name]
		} else {
			sel = selWithIndex(arg)
		}
		switch fn {
		case "os.Expand":
			scalars = append(scalars, goSelToYaml(sel))
		case "c.expandEnvVarsStringSlice":
			slices = append(slices, goSelToYaml(sel))
		case "c.expandEnvVarsContents":
			contents = append(contents, goSelToYaml(sel))
		}
		return true
	})
	dedup := func(xs []string) []string {
		sort.Strings(xs)
		var r []string
		for i, x := range xs {
			if i == 0 || xs[i-1] != x {
				r = append(r, x)
			}
		}
		return r
	}
	// documented expandable keys
	doc, err := os.Open(filepath.Join(*repo, "www/docs/configuration.md"))
	if err != nil {
		return "", err
	}
	defer doc.Close()
	sc := bufio.NewScanner(doc)
	type lvl struct {
		indent int
		key    string
	}
	var stack []lvl
	pending := false
	var documented []string
	inYaml := false
	for sc.Scan() {
		line := sc.Text()
		if strings.HasPrefix(line, "```") {
			inYaml = strings.HasPrefix(line, "```yaml") && !inYaml
			if !inYaml {
				stack = nil
			}
			continue
		}
		if !inYaml {
			continue
		}
		trim := strings.TrimLeft(line, " ")
		indent := len(line) - len(trim)
		if strings.HasPrefix(trim, "#") {
			if strings.Contains(trim, "expand any env var") {
				pending = true
			}
			continue
		}
		if trim == "" {
			continue
		}
		item := false
		if strings.HasPrefix(trim, "- ") {
			item = true
			trim = strings.TrimPrefix(trim, "- ")
			indent += 2
		}
		i := strings.Index(trim, ":")
		if i <= 0 || strings.ContainsAny(trim[:i], " \"'") {
			continue
		}
		key := trim[:i]
		for len(stack) > 0 && stack[len(stack)-1].indent >= indent {
			stack = stack[:len(stack)-1]
		}
		if item {
			stack = append(stack, lvl{indent - 1, "[]"})
		}
		stack = append(stack, lvl{indent, key})
		if pending {
			var parts []string
			for _, l := range stack {
				parts = append(parts, l.key)
			}
			documented = append(documented, strings.Join(parts, "."))
			pending = false
		}
	}
	var b strings.Builder
	b.WriteString("import NfpmModel.Bytes\nnamespace Nfpm.Generated\nopen Nfpm\n")
	fmt.Fprintf(&b, "def expandedScalars : List Bytes := %s\n", leanStrList(dedup(scalars)))
	fmt.Fprintf(&b, "def expandedSlices : List Bytes := %s\n", leanStrList(dedup(slices)))
	fmt.Fprintf(&b, "def expandedContents : List Bytes := %s\n", leanStrList(dedup(contents)))
	fmt.Fprintf(&b, "def expandLiterals : List Bytes := %s\n", leanStrList(literals))
	fmt.Fprintf(&b, "def documentedExpandable : List Bytes := %s\n", leanStrList(dedup(documented)))
	b.WriteString("end Nfpm.Generated\n")
	return b.String(), nil
}
