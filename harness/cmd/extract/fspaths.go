package main

import "fmt"

func genFsPaths() (string, error) {
	s, err := parse("files/fs.go")
	if err != nil {
		return "", err
	}
	fs, ok1 := stringSliceLit(s.topVar("fsPaths"))
	lr, ok2 := stringSliceLit(s.topVar("logrotatePaths"))
	if !ok1 || !ok2 {
		return "", fmt.Errorf("fsPaths/logrotatePaths literals not found")
	}
	return fmt.Sprintf(`import NfpmModel.Bytes
namespace Nfpm.Generated
open Nfpm
def fsPaths : List Bytes := %s
def logrotatePaths : List Bytes := %s
end Nfpm.Generated
`, leanStrList(fs), leanStrList(lr)), nil
}
