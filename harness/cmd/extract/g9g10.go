package main

import (
	"fmt"
	"go/ast"
	"go/token"
	"go/types"
	"os"
	"os/exec"
	"path/filepath"
	"regexp"
	"sort"
	"strconv"
	"strings"
)

// ---------- G9: calls whose error result is dropped (errcheck -blank) ----------

func enclosingFunc(s *srcFile, line int) string {
	name := "(package level)"
	for _, d := range s.f.Decls {
		fd, ok := d.(*ast.FuncDecl)
		if !ok {
			continue
		}
		a, b := s.fset.Position(fd.Pos()).Line, s.fset.Position(fd.End()).Line
		if a <= line && line <= b {
			name = fd.Name.Name
		}
	}
	return name
}

var reErrcheck = regexp.MustCompile(`^([^:]+):(\d+):(\d+):\s*(.*)$`)

func genDroppedReal() (string, error) {
	cmd := exec.Command("errcheck", "-blank", "-ignoretests", "./deb/...", "./rpm/...", "./apk/...", "./arch/...", "./ipk/...", "./internal/cmd/...", "./files/...", "./internal/glob/...", ".")
	cmd.Dir = *repo
	cmd.Env = append(os.Environ(), "GOFLAGS=-mod=mod", "GOPROXY=off", "GOSUMDB=off", "GOTOOLCHAIN=local")
	out, err := cmd.Output() // exit status 1 when something is reported
	if err != nil {
		if _, ok := err.(*exec.ExitError); !ok {
			return "", fmt.Errorf("errcheck: %w", err)
		}
	}
	type row struct{ file, fn, call string }
	var rows []row
	// the reported calls are named by what is called (package path and receiver type from go/types), not by how the
	// receiver variable happens to be called: "defer (*os.File).Close(", "_ = (*os.File).Close(", "fmt.Fprintf("
	rels := []string{"", "files", "deb", "rpm", "apk", "arch", "ipk", "internal/cmd", "internal/glob"}
	fset, infos, asts, terr := typeCheckRepo(rels)
	if terr != nil {
		return "", terr
	}
	calleeName := func(info *types.Info, ce *ast.CallExpr) string {
		switch f := ce.Fun.(type) {
		case *ast.SelectorExpr:
			if o, ok := info.Uses[f.Sel].(*types.Func); ok {
				return o.FullName()
			}
			return "?." + f.Sel.Name
		case *ast.Ident:
			if o, ok := info.Uses[f].(*types.Func); ok {
				return o.FullName()
			}
			return f.Name
		}
		return "?"
	}
	for _, line := range strings.Split(string(out), "\n") {
		m := reErrcheck.FindStringSubmatch(line)
		if m == nil {
			continue
		}
		rel := filepath.ToSlash(filepath.Dir(m[1]))
		if rel == "." {
			rel = ""
		}
		info, ok := infos[rel]
		if !ok {
			return "", fmt.Errorf("errcheck reports %s: package not type-checked", m[1])
		}
		ln, _ := strconv.Atoi(m[2])
		col, _ := strconv.Atoi(m[3])
		var found, fn string
		for _, f := range asts[rel] {
			if filepath.ToSlash(fset.Position(f.Pos()).Filename) != filepath.ToSlash(filepath.Join(*repo, m[1])) {
				continue
			}
			for _, d := range f.Decls {
				fd, ok := d.(*ast.FuncDecl)
				if !ok || fd.Body == nil {
					continue
				}
				var stack []ast.Node
				ast.Inspect(fd, func(n ast.Node) bool {
					if n == nil {
						stack = stack[:len(stack)-1]
						return true
					}
					stack = append(stack, n)
					at := func(p token.Pos) bool { q := fset.Position(p); return q.Line == ln && q.Column == col }
					switch x := n.(type) {
					case *ast.CallExpr:
						if found == "" && at(x.Lparen) {
							pre := ""
							if len(stack) >= 2 {
								switch stack[len(stack)-2].(type) {
								case *ast.DeferStmt:
									pre = "defer "
								case *ast.GoStmt:
									pre = "go "
								}
							}
							found, fn = pre+calleeName(info, x)+"(", fd.Name.Name
						}
					case *ast.AssignStmt:
						for _, l := range x.Lhs {
							if id, ok := l.(*ast.Ident); ok && id.Name == "_" && at(id.Pos()) && found == "" && len(x.Rhs) == 1 {
								if ce, ok := x.Rhs[0].(*ast.CallExpr); ok {
									shape := make([]string, len(x.Lhs))
									for i, ll := range x.Lhs {
										shape[i] = "v"
										if lid, ok := ll.(*ast.Ident); ok && lid.Name == "_" {
											shape[i] = "_"
										}
									}
									found, fn = strings.Join(shape, ", ")+" "+x.Tok.String()+" "+calleeName(info, ce)+"(", fd.Name.Name
								}
							}
						}
					}
					return true
				})
			}
		}
		if found == "" {
			return "", fmt.Errorf("errcheck reports %s:%d:%d, no call found there", m[1], ln, col)
		}
		if strings.HasPrefix(m[1], "internal/cmd/") && fn != "doPackage" {
			continue // flag registration helpers of the CLI: no packaging output involved
		}
		pkg := rel
		if pkg == "" {
			pkg = "nfpm"
		}
		rows = append(rows, row{pkg, fn, found})
	}
	if len(rows) == 0 {
		return "", fmt.Errorf("errcheck reported nothing (tool missing or failed): %s", out)
	}
	sort.Slice(rows, func(i, j int) bool {
		if rows[i].file != rows[j].file {
			return rows[i].file < rows[j].file
		}
		if rows[i].fn != rows[j].fn {
			return rows[i].fn < rows[j].fn
		}
		return rows[i].call < rows[j].call
	})
	var b strings.Builder
	b.WriteString("import NfpmModel.Bytes\nnamespace Nfpm.Generated\nopen Nfpm\n")
	b.WriteString("/-- every call in the packaging code whose error result is dropped: (package, enclosing function, what is called) -/\n")
	b.WriteString("def droppedErrors : List (Bytes × Bytes × Bytes) := [\n")
	for i, r := range rows {
		sep := ","
		if i == len(rows)-1 {
			sep = ""
		}
		fmt.Fprintf(&b, "  (%s, %s, %s)%s\n", leanStr(r.file), leanStr(r.fn), leanStr(r.call), sep)
	}
	b.WriteString("]\nend Nfpm.Generated\n")
	return b.String(), nil
}

// ---------- G10: clock / host / environment call sites and modtime.Get arguments ----------

func genClockReal() (string, error) {
	type site struct{ file, fn, call string }
	var sites []site
	var gets []site
	filesToScan := []string{"nfpm.go", "files/files.go", "files/fs.go", "internal/glob/glob.go", "internal/modtime/mtime.go", "internal/maps/maps.go",
		"deb/deb.go", "rpm/rpm.go", "apk/apk.go", "arch/arch.go", "ipk/ipk.go", "ipk/tar.go", "internal/cmd/package.go", "internal/sign/pgp.go", "internal/sign/rsa.go"}
	for _, f := range filesToScan {
		s, err := parse(f)
		if err != nil {
			return "", err
		}
		for _, d := range s.f.Decls {
			fd, ok := d.(*ast.FuncDecl)
			if !ok {
				continue
			}
			ast.Inspect(fd, func(n ast.Node) bool {
				ce, ok := n.(*ast.CallExpr)
				if !ok {
					return true
				}
				fn := fullSel(ce.Fun)
				switch {
				case fn == "time.Now" || fn == "time.Since" || fn == "os.Hostname" || fn == "os.Getenv" || fn == "os.LookupEnv" || fn == "os.Environ" || strings.HasPrefix(fn, "rand.") ||
					fn == "runtime.GOMAXPROCS" || fn == "runtime.NumCPU" || fn == "os.Getpid" || fn == "os.Getuid" || fn == "os.Getgid" || fn == "os.Getwd" || fn == "user.Current":
					sites = append(sites, site{f, fd.Name.Name, fn})
				case fn == "modtime.Get" || fn == "modtime.FromEnv":
					var args []string
					for _, a := range ce.Args {
						args = append(args, exprText(a))
					}
					gets = append(gets, site{f, fd.Name.Name, fn + "(" + strings.Join(args, ", ") + ")"})
				}
				return true
			})
		}
	}
	emit := func(name string, xs []site) string {
		sort.Slice(xs, func(i, j int) bool {
			a, b := xs[i], xs[j]
			if a.file != b.file {
				return a.file < b.file
			}
			if a.fn != b.fn {
				return a.fn < b.fn
			}
			return a.call < b.call
		})
		var parts []string
		for _, x := range xs {
			parts = append(parts, fmt.Sprintf("(%s, %s, %s)", leanStr(x.file), leanStr(x.fn), leanStr(x.call)))
		}
		return fmt.Sprintf("def %s : List (Bytes × Bytes × Bytes) := [\n  %s]\n", name, strings.Join(parts, ",\n  "))
	}
	var b strings.Builder
	b.WriteString("import NfpmModel.Bytes\nnamespace Nfpm.Generated\nopen Nfpm\n")
	b.WriteString("/-- every reference to the clock, the host name, the environment or randomness in the packaging code -/\n")
	b.WriteString(emit("clockSites", sites))
	b.WriteString("/-- every call of the clock gate internal/modtime with its arguments -/\n")
	b.WriteString(emit("modtimeCalls", gets))
	b.WriteString("end Nfpm.Generated\n")
	return b.String(), nil
}

func exprText(e ast.Expr) string {
	switch x := e.(type) {
	case *ast.SelectorExpr:
		return exprText(x.X) + "." + x.Sel.Name
	case *ast.Ident:
		return x.Name
	case *ast.CallExpr:
		var args []string
		for _, a := range x.Args {
			args = append(args, exprText(a))
		}
		s := exprText(x.Fun) + "(" + strings.Join(args, ", ") + ")"
		if x.Ellipsis.IsValid() {
			s = strings.TrimSuffix(s, ")") + "...)"
		}
		return s
	case *ast.BasicLit:
		return x.Value
	case *ast.UnaryExpr:
		return x.Op.String() + exprText(x.X)
	case *ast.StarExpr:
		return "*" + exprText(x.X)
	}
	return "?"
}
