package main

import (
	"bytes"
	"encoding/json"
	"fmt"
	"go/ast"
	"go/parser"
	"go/token"
	"io"
	"os"
	"os/exec"
	"path/filepath"
	"regexp"
	"sort"
	"strings"

	"github.com/goreleaser/nfpm/v2"
	"github.com/goreleaser/nfpm/v2/deb"
	"github.com/invopop/jsonschema"
)

// ---------- G6: the JSON schema as emitted (same call as `nfpm jsonschema`) ----------

type sPath struct{ path, kind string }

func flattenSchema(root map[string]any) (paths []sPath, enums map[string][]string, patterns map[string]string, required []string) {
	enums, patterns = map[string][]string{}, map[string]string{}
	defs, _ := root["$defs"].(map[string]any)
	var resolve func(n map[string]any) map[string]any
	resolve = func(n map[string]any) map[string]any {
		if ref, ok := n["$ref"].(string); ok {
			name := strings.TrimPrefix(ref, "#/$defs/")
			if d, ok := defs[name].(map[string]any); ok {
				return resolve(d)
			}
		}
		return n
	}
	var walk func(n map[string]any, path string, depth int)
	walk = func(n map[string]any, path string, depth int) {
		if depth > 14 {
			return
		}
		n = resolve(n)
		typ, _ := n["type"].(string)
		if e, ok := n["enum"].([]any); ok && path != "" {
			for _, v := range e {
				enums[path] = append(enums[path], fmt.Sprint(v))
			}
		}
		if p, ok := n["pattern"].(string); ok {
			patterns[path] = p
		}
		switch typ {
		case "object":
			props, hasProps := n["properties"].(map[string]any)
			ap, hasAP := n["additionalProperties"].(map[string]any)
			if hasProps {
				if path != "" {
					paths = append(paths, sPath{path, "object"})
				}
				if req, ok := n["required"].([]any); ok {
					for _, r := range req {
						p := fmt.Sprint(r)
						if path != "" {
							p = path + "." + p
						}
						required = append(required, p)
					}
				}
				keys := make([]string, 0, len(props))
				for k := range props {
					keys = append(keys, k)
				}
				sort.Strings(keys)
				for _, k := range keys {
					p := k
					if path != "" {
						p = path + "." + k
					}
					if sub, ok := props[k].(map[string]any); ok {
						walk(sub, p, depth+1)
					}
				}
				if ap2, ok := n["additionalProperties"].(bool); ok && ap2 {
					paths = append(paths, sPath{path + ".*", "any"})
				}
			} else if hasAP {
				paths = append(paths, sPath{path, "map"})
				walk(ap, path+".{}", depth+1)
			} else {
				paths = append(paths, sPath{path, "object"})
			}
		case "array":
			paths = append(paths, sPath{path, "list"})
			if it, ok := n["items"].(map[string]any); ok {
				walk(it, path+".[]", depth+1)
			}
		case "string":
			if f, _ := n["format"].(string); f == "date-time" {
				paths = append(paths, sPath{path, "time"})
			} else {
				paths = append(paths, sPath{path, "string"})
			}
		case "integer":
			paths = append(paths, sPath{path, "int"})
		case "boolean":
			paths = append(paths, sPath{path, "bool"})
		default:
			paths = append(paths, sPath{path, "other:" + typ})
		}
	}
	walk(root, "", 0)
	return
}

func genSchema() (string, error) {
	schema := jsonschema.Reflect(&nfpm.Config{})
	schema.Description = "nFPM configuration definition file"
	bts, err := json.Marshal(schema)
	if err != nil {
		return "", err
	}
	var root map[string]any
	if err := json.Unmarshal(bts, &root); err != nil {
		return "", err
	}
	paths, enums, patterns, required := flattenSchema(root)
	sort.Slice(paths, func(i, j int) bool { return paths[i].path < paths[j].path })
	kps := configKeyPaths()
	sort.Slice(kps, func(i, j int) bool { return kps[i].yaml < kps[j].yaml })
	var b strings.Builder
	b.WriteString("import NfpmModel.Bytes\nnamespace Nfpm.Generated\nopen Nfpm\n")
	b.WriteString("/-- key paths the emitted JSON schema allows, sorted: (path, kind) -/\n")
	b.WriteString("def schemaPaths : List (Bytes × Bytes) := [\n")
	for i, p := range paths {
		sep := ","
		if i == len(paths)-1 {
			sep = ""
		}
		fmt.Fprintf(&b, "  (%s, %s)%s\n", leanStr(p.path), leanStr(p.kind), sep)
	}
	b.WriteString("]\n")
	b.WriteString("/-- key paths of the strict parser (reflected, by JSON name), sorted -/\n")
	b.WriteString("def parserPathsSorted : List (Bytes × Bytes) := [\n")
	for i, k := range kps {
		sep := ","
		if i == len(kps)-1 {
			sep = ""
		}
		fmt.Fprintf(&b, "  (%s, %s)%s\n", leanStr(k.json), leanStr(k.kind), sep)
	}
	b.WriteString("]\n")
	keys := make([]string, 0, len(enums))
	for k := range enums {
		keys = append(keys, k)
	}
	sort.Strings(keys)
	b.WriteString("def schemaEnums : List (Bytes × List Bytes) := [")
	for i, k := range keys {
		if i > 0 {
			b.WriteString(", ")
		}
		fmt.Fprintf(&b, "(%s, %s)", leanStr(k), leanStrList(enums[k]))
	}
	b.WriteString("]\n")
	pk := make([]string, 0, len(patterns))
	for k := range patterns {
		pk = append(pk, k)
	}
	sort.Strings(pk)
	b.WriteString("def schemaPatterns : List (Bytes × Bytes) := [")
	for i, k := range pk {
		if i > 0 {
			b.WriteString(", ")
		}
		fmt.Fprintf(&b, "(%s, %s)", leanStr(k), leanStr(patterns[k]))
	}
	b.WriteString("]\n")
	sort.Strings(required)
	fmt.Fprintf(&b, "def schemaRequired : List Bytes := %s\n", leanStrList(required))
	b.WriteString("end Nfpm.Generated\n")
	return b.String(), nil
}

// ---------- G7: values the code accepts for enumerated settings ----------

func switchCaseStrings(fd *ast.FuncDecl, tagSuffix string) []string {
	var res []string
	ast.Inspect(fd, func(n ast.Node) bool {
		sw, ok := n.(*ast.SwitchStmt)
		if !ok || sw.Tag == nil || !strings.HasSuffix(fullSel(sw.Tag), tagSuffix) {
			return true
		}
		for _, c := range sw.Body.List {
			for _, e := range c.(*ast.CaseClause).List {
				if v, ok := unquote(e); ok {
					res = append(res, v)
				}
			}
		}
		return false
	})
	return res
}

func genAcceptedReal() (string, error) {
	var b strings.Builder
	b.WriteString("import NfpmModel.Bytes\nnamespace Nfpm.Generated\nopen Nfpm\n")
	// the values the deb packager and the version handling accept are tabulated by execution over the universe of
	// short string literals of the source (any value the code can compare a setting with is one of them) plus the
	// schema's enumerated values: no dependence on where and how the code spells its switches
	comp, method, sigTypes, vs, err := tabulateAccepted()
	if err != nil {
		return "", err
	}
	fmt.Fprintf(&b, "def accepted_deb_compression : List Bytes := %s\n", leanStrList(comp))
	fmt.Fprintf(&b, "/-- the method values that do not behave like the default (debsign) -/\n")
	fmt.Fprintf(&b, "def accepted_deb_signature_method_cases : List Bytes := %s\n", leanStrList(method))
	fmt.Fprintf(&b, "def accepted_deb_signature_type : List Bytes := %s\n", leanStrList(sigTypes))
	fmt.Fprintf(&b, "def accepted_version_schema : List Bytes := %s\n", leanStrList(vs))
	// rpmpack setupCompressor of the linked module version
	// resolved in the module under test, whatever the working directory of the translator is
	lcmd := exec.Command("go", "list", "-m", "-f", "{{.Dir}}", "github.com/google/rpmpack")
	lcmd.Dir = *repo
	lcmd.Env = append(os.Environ(), "GOFLAGS=-mod=mod", "GOPROXY=off", "GOSUMDB=off", "GOTOOLCHAIN=local")
	out, err := lcmd.Output()
	if err != nil {
		return "", fmt.Errorf("go list rpmpack: %w", err)
	}
	dir := strings.TrimSpace(string(out))
	fset := token.NewFileSet()
	f, err := parser.ParseFile(fset, filepath.Join(dir, "rpm.go"), nil, 0)
	if err != nil {
		return "", err
	}
	var rpmc []string
	for _, d := range f.Decls {
		if fd, ok := d.(*ast.FuncDecl); ok && fd.Name.Name == "setupCompressor" {
			rpmc = switchCaseStrings(fd, "compressorType")
		}
	}
	if len(rpmc) == 0 {
		return "", fmt.Errorf("rpmpack setupCompressor switch not found")
	}
	fmt.Fprintf(&b, "def accepted_rpm_compression_algorithms : List Bytes := %s\n", leanStrList(rpmc))
	b.WriteString("end Nfpm.Generated\n")
	return b.String(), nil
}

var reShortLit = regexp.MustCompile(`^[A-Za-z0-9:._|+-]{0,20}$`)

// literalUniverse collects the short string literals of the given source files plus extra values.
func literalUniverse(relFiles []string, extra []string) []string {
	seen := map[string]bool{"": true}
	for _, x := range extra {
		seen[x] = true
	}
	for _, rf := range relFiles {
		matches, _ := filepath.Glob(filepath.Join(*repo, rf))
		for _, p := range matches {
			if strings.HasSuffix(p, "_test.go") {
				continue
			}
			fset := token.NewFileSet()
			f, err := parser.ParseFile(fset, p, nil, 0)
			if err != nil {
				continue
			}
			ast.Inspect(f, func(n ast.Node) bool {
				if lit, ok := n.(*ast.BasicLit); ok && lit.Kind == token.STRING {
					if v, ok := unquote(lit); ok && reShortLit.MatchString(v) {
						seen[v] = true
					}
				}
				return true
			})
		}
	}
	var out []string
	for v := range seen {
		out = append(out, v)
	}
	sort.Strings(out)
	return out
}

// ordered: "" first, then the values in the order of the schema enum, then the rest sorted.
func orderedLike(vals []string, enum []string) []string {
	in := map[string]bool{}
	for _, v := range vals {
		in[v] = true
	}
	var out []string
	if in[""] {
		out = append(out, "")
		delete(in, "")
	}
	for _, e := range enum {
		if in[e] {
			out = append(out, e)
			delete(in, e)
		}
	}
	var rest []string
	for v := range in {
		rest = append(rest, v)
	}
	sort.Strings(rest)
	return append(out, rest...)
}

func tabulateAccepted() (comp, method, sigTypes, schema []string, err error) {
	enums := map[string][]string{}
	for _, k := range configKeyPaths() {
		if k.enum != "" {
			enums[k.yaml] = strings.Split(k.enum, "\x1f")
		}
	}
	var extra []string
	for _, vs := range enums {
		extra = append(extra, vs...)
	}
	universe := literalUniverse([]string{"deb/*.go", "nfpm.go", "internal/sign/*.go"}, extra)
	base := func() *nfpm.Info {
		return nfpm.WithDefaults(&nfpm.Info{Name: "p", Arch: "amd64", Platform: "linux", Version: "1.0.0", Maintainer: "m <m@example.com>", Description: "d"})
	}
	build := func(info *nfpm.Info) ([]byte, error) {
		var buf bytes.Buffer
		var err error
		func() {
			defer func() {
				if r := recover(); r != nil {
					err = fmt.Errorf("panic: %v", r)
				}
			}()
			err = deb.Default.Package(info, &buf)
		}()
		return buf.Bytes(), err
	}
	if _, berr := build(base()); berr != nil {
		return nil, nil, nil, nil, fmt.Errorf("G7: the base deb does not build: %v", berr)
	}
	sign := func(io.Reader) ([]byte, error) { return []byte("signature"), nil }
	var compA, methodA, typeA, schemaA []string
	for _, v := range universe {
		i := base()
		i.Deb.Compression = v
		if _, e := build(i); e == nil {
			compA = append(compA, v)
		}
		i = base()
		i.Deb.Signature.SignFn = sign
		i.Deb.Signature.Type = v
		if _, e := build(i); e == nil && v != "" {
			typeA = append(typeA, v)
		}
		if v != "" {
			i = base()
			i.Deb.Signature.SignFn = sign
			i.Deb.Signature.Method = v
			d, e := build(i)
			j := base()
			j.Deb.Signature.SignFn = sign
			dd, ee := build(j)
			// a method value is a case of its own when the package it yields is not the default method's
			if (e == nil) != (ee == nil) || (e == nil && bytes.Contains(d, []byte("_gpgbuilder")) != bytes.Contains(dd, []byte("_gpgbuilder"))) {
				methodA = append(methodA, v)
			}
		}
		// version schema: a value is a case of its own when a semver-shaped version with a prerelease is not split
		k := &nfpm.Info{Version: "1.2.3-rc1", VersionSchema: v}
		nfpm.WithDefaults(k)
		if k.Prerelease == "" && k.Version == "1.2.3-rc1" {
			schemaA = append(schemaA, v)
		}
	}
	if len(compA) == 0 || len(typeA) == 0 {
		return nil, nil, nil, nil, fmt.Errorf("G7: tabulation found no accepted deb compression / signature type")
	}
	schemaOut := orderedLike(schemaA, enums["version_schema"])
	for _, e := range enums["version_schema"] {
		// the documented names of the default behaviour
		found := false
		for _, x := range schemaOut {
			if x == e {
				found = true
			}
		}
		if !found {
			schemaOut = append(schemaOut, e)
		}
	}
	return orderedLike(compA, enums["deb.compression"]), orderedLike(methodA, enums["deb.signature.method"]),
		orderedLike(typeA, enums["deb.signature.type"]), schemaOut, nil
}
