package main

import (
	"encoding/json"
	"fmt"
	"go/ast"
	"go/parser"
	"go/token"
	"os"
	"os/exec"
	"path/filepath"
	"sort"
	"strings"

	"github.com/goreleaser/nfpm/v2"
	"github.com/invopop/jsonschema"
)

// ---------- G6: the JSON schema as emitted (same call as `nfpm jsonschema`) ----------

type sPath struct{ path, kind string }

func flattenSchema(root map[string]any) (paths []sPath, enums map[string][]string, patterns map[string]string, required []string) {
	enums, patterns = map[string][]string{}, map[string]string{}
	defs, _ := root["$defs"].(map[string]any)
	var resolve func(n map[string]any) map[string]any
	resolve = func(n map[string]any) map[string]any {
		if ref, ok := n["$ref"].(string); ok {
			name := strings.TrimPrefix(ref, "#/$defs/")
			if d, ok := defs[name].(map[string]any); ok {
				return resolve(d)
			}
		}
		return n
	}
	var walk func(n map[string]any, path string, depth int)
	walk = func(n map[string]any, path string, depth int) {
		if depth > 14 {
			return
		}
		n = resolve(n)
		typ, _ := n["type"].(string)
		if e, ok := n["enum"].([]any); ok && path != "" {
			for _, v := range e {
				enums[path] = append(enums[path], fmt.Sprint(v))
			}
		}
		if p, ok := n["pattern"].(string); ok {
			patterns[path] = p
		}
		switch typ {
		case "object":
			props, hasProps := n["properties"].(map[string]any)
			ap, hasAP := n["additionalProperties"].(map[string]any)
			if hasProps {
				if path != "" {
					paths = append(paths, sPath{path, "object"})
				}
				if req, ok := n["required"].([]any); ok {
					for _, r := range req {
						p := fmt.Sprint(r)
						if path != "" {
							p = path + "." + p
						}
						required = append(required, p)
					}
				}
				keys := make([]string, 0, len(props))
				for k := range props {
					keys = append(keys, k)
				}
				sort.Strings(keys)
				for _, k := range keys {
					p := k
					if path != "" {
						p = path + "." + k
					}
					if sub, ok := props[k].(map[string]any); ok {
						walk(sub, p, depth+1)
					}
				}
				if ap2, ok := n["additionalProperties"].(bool); ok && ap2 {
					paths = append(paths, sPath{path + ".*", "any"})
				}
			} else if hasAP {
				paths = append(paths, sPath{path, "map"})
				walk(ap, path+".{}", depth+1)
			} else {
				paths = append(paths, sPath{path, "object"})
			}
		case "array":
			paths = append(paths, sPath{path, "list"})
			if it, ok := n["items"].(map[string]any); ok {
				walk(it, path+".[]", depth+1)
			}
		case "string":
			if f, _ := n["format"].(string); f == "date-time" {
				paths = append(paths, sPath{path, "time"})
			} else {
				paths = append(paths, sPath{path, "string"})
			}
		case "integer":
			paths = append(paths, sPath{path, "int"})
		case "boolean":
			paths = append(paths, sPath{path, "bool"})
		default:
			paths = append(paths, sPath{path, "other:" + typ})
		}
	}
	walk(root, "", 0)
	return
}

func genSchema() (string, error) {
	schema := jsonschema.Reflect(&nfpm.Config{})
	schema.Description = "nFPM configuration definition file"
	bts, err := json.Marshal(schema)
	if err != nil {
		return "", err
	}
	var root map[string]any
	if err := json.Unmarshal(bts, &root); err != nil {
		return "", err
	}
	paths, enums, patterns, required := flattenSchema(root)
	sort.Slice(paths, func(i, j int) bool { return paths[i].path < paths[j].path })
	kps := configKeyPaths()
	sort.Slice(kps, func(i, j int) bool { return kps[i].yaml < kps[j].yaml })
	var b strings.Builder
	b.WriteString("import NfpmModel.Bytes\nnamespace Nfpm.Generated\nopen Nfpm\n")
	b.WriteString("/-- key paths the emitted JSON schema allows, sorted: (path, kind) -/\n")
	b.WriteString("def schemaPaths : List (Bytes × Bytes) := [\n")
	for i, p := range paths {
		sep := ","
		if i == len(paths)-1 {
			sep = ""
		}
		fmt.Fprintf(&b, "  (%s, %s)%s\n", leanStr(p.path), leanStr(p.kind), sep)
	}
	b.WriteString("]\n")
	b.WriteString("/-- key paths of the strict parser (reflected, by JSON name), sorted -/\n")
	b.WriteString("def parserPathsSorted : List (Bytes × Bytes) := [\n")
	for i, k := range kps {
		sep := ","
		if i == len(kps)-1 {
			sep = ""
		}
		fmt.Fprintf(&b, "  (%s, %s)%s\n", leanStr(k.json), leanStr(k.kind), sep)
	}
	b.WriteString("]\n")
	keys := make([]string, 0, len(enums))
	for k := range enums {
		keys = append(keys, k)
	}
	sort.Strings(keys)
	b.WriteString("def schemaEnums : List (Bytes × List Bytes) := [")
	for i, k := range keys {
		if i > 0 {
			b.WriteString(", ")
		}
		fmt.Fprintf(&b, "(%s, %s)", leanStr(k), leanStrList(enums[k]))
	}
	b.WriteString("]\n")
	pk := make([]string, 0, len(patterns))
	for k := range patterns {
		pk = append(pk, k)
	}
	sort.Strings(pk)
	b.WriteString("def schemaPatterns : List (Bytes × Bytes) := [")
	for i, k := range pk {
		if i > 0 {
			b.WriteString(", ")
		}
		fmt.Fprintf(&b, "(%s, %s)", leanStr(k), leanStr(patterns[k]))
	}
	b.WriteString("]\n")
	sort.Strings(required)
	fmt.Fprintf(&b, "def schemaRequired : List Bytes := %s\n", leanStrList(required))
	b.WriteString("end Nfpm.Generated\n")
	return b.String(), nil
}

// ---------- G7: values the code accepts for enumerated settings ----------

func switchCaseStrings(fd *ast.FuncDecl, tagSuffix string) []string {
	var res []string
	ast.Inspect(fd, func(n ast.Node) bool {
		sw, ok := n.(*ast.SwitchStmt)
		if !ok || sw.Tag == nil || !strings.HasSuffix(fullSel(sw.Tag), tagSuffix) {
			return true
		}
		for _, c := range sw.Body.List {
			for _, e := range c.(*ast.CaseClause).List {
				if v, ok := unquote(e); ok {
					res = append(res, v)
				}
			}
		}
		return false
	})
	return res
}

func genAcceptedReal() (string, error) {
	var b strings.Builder
	b.WriteString("import NfpmModel.Bytes\nnamespace Nfpm.Generated\nopen Nfpm\n")
	deb, err := parse("deb/deb.go")
	if err != nil {
		return "", err
	}
	var comp, method, sigTypes []string
	if fd := deb.funcDecl("createDataTarball"); fd != nil {
		comp = switchCaseStrings(fd, "Deb.Compression")
	}
	if fd := deb.funcDecl("doSign"); fd != nil {
		method = switchCaseStrings(fd, "Signature.Method")
	}
	if fd := deb.funcDecl("debSign"); fd != nil {
		ast.Inspect(fd, func(n ast.Node) bool {
			be, ok := n.(*ast.BinaryExpr)
			if ok && be.Op == token.NEQ && fullSel(be.X) == "sigType" {
				if v, ok := unquote(be.Y); ok {
					sigTypes = append(sigTypes, v)
				}
			}
			return true
		})
	}
	if len(comp) == 0 || len(method) == 0 || len(sigTypes) == 0 {
		return "", fmt.Errorf("deb accepted-value switches not found")
	}
	fmt.Fprintf(&b, "def accepted_deb_compression : List Bytes := %s\n", leanStrList(comp))
	fmt.Fprintf(&b, "/-- explicit cases of the method switch; every other value (incl. \"debsign\") takes the default arm -/\n")
	fmt.Fprintf(&b, "def accepted_deb_signature_method_cases : List Bytes := %s\n", leanStrList(method))
	fmt.Fprintf(&b, "def accepted_deb_signature_type : List Bytes := %s\n", leanStrList(sigTypes))
	nf, err := parse("nfpm.go")
	if err != nil {
		return "", err
	}
	var vs []string
	if fd := nf.funcDecl("WithDefaults"); fd != nil {
		vs = switchCaseStrings(fd, "VersionSchema")
	}
	fmt.Fprintf(&b, "def accepted_version_schema : List Bytes := %s\n", leanStrList(vs))
	// rpmpack setupCompressor of the linked module version
	// resolved in the module under test, whatever the working directory of the translator is
	lcmd := exec.Command("go", "list", "-m", "-f", "{{.Dir}}", "github.com/google/rpmpack")
	lcmd.Dir = *repo
	lcmd.Env = append(os.Environ(), "GOFLAGS=-mod=mod", "GOPROXY=off", "GOSUMDB=off", "GOTOOLCHAIN=local")
	out, err := lcmd.Output()
	if err != nil {
		return "", fmt.Errorf("go list rpmpack: %w", err)
	}
	dir := strings.TrimSpace(string(out))
	fset := token.NewFileSet()
	f, err := parser.ParseFile(fset, filepath.Join(dir, "rpm.go"), nil, 0)
	if err != nil {
		return "", err
	}
	var rpmc []string
	for _, d := range f.Decls {
		if fd, ok := d.(*ast.FuncDecl); ok && fd.Name.Name == "setupCompressor" {
			rpmc = switchCaseStrings(fd, "compressorType")
		}
	}
	if len(rpmc) == 0 {
		return "", fmt.Errorf("rpmpack setupCompressor switch not found")
	}
	fmt.Fprintf(&b, "def accepted_rpm_compression_algorithms : List Bytes := %s\n", leanStrList(rpmc))
	b.WriteString("end Nfpm.Generated\n")
	return b.String(), nil
}
