package main

import (
	"fmt"
	"go/ast"
	"go/token"
	"sort"
	"strings"
)

// ---------- G13: in-place writes through info / content entries / file infos ----------

func rootIdent(e ast.Expr) string {
	for {
		switch x := e.(type) {
		case *ast.SelectorExpr:
			e = x.X
		case *ast.IndexExpr:
			e = x.X
		case *ast.StarExpr:
			e = x.X
		case *ast.ParenExpr:
			e = x.X
		case *ast.Ident:
			return x.Name
		default:
			return ""
		}
	}
}

func genInPlace() (string, error) {
	type row struct{ file, fn, lhs string }
	var rows []row
	watched := map[string]bool{"info": true, "content": true, "file": true, "c": true, "cc": true, "i": true, "f": true, "tree": true, "origFile": true, "newFile": true}
	for _, f := range []string{"nfpm.go", "files/files.go", "deb/deb.go", "rpm/rpm.go", "apk/apk.go", "arch/arch.go", "ipk/ipk.go", "ipk/tar.go"} {
		s, err := parse(f)
		if err != nil {
			return "", err
		}
		for _, d := range s.f.Decls {
			fd, ok := d.(*ast.FuncDecl)
			if !ok || fd.Body == nil {
				continue
			}
			if strings.HasPrefix(fd.Name.Name, "expandEnvVars") || fd.Name.Name == "Swap" {
				continue // parse-time construction of the Config / sort.Interface plumbing
			}
			// parameters / receivers of pointer or struct type named like the watched roots
			ast.Inspect(fd.Body, func(n ast.Node) bool {
				switch x := n.(type) {
				case *ast.AssignStmt:
					if x.Tok == token.DEFINE {
						return true
					}
					for _, l := range x.Lhs {
						if _, plain := l.(*ast.Ident); plain {
							continue
						}
						if r := rootIdent(l); watched[r] {
							rows = append(rows, row{f, fd.Name.Name, exprText2(l)})
						}
					}
				case *ast.CallExpr:
					if id, ok := x.Fun.(*ast.Ident); ok && id.Name == "delete" && len(x.Args) > 0 {
						if r := rootIdent(x.Args[0]); watched[r] {
							rows = append(rows, row{f, fd.Name.Name, "delete(" + exprText2(x.Args[0]) + ")"})
						}
					}
				case *ast.IncDecStmt:
					if r := rootIdent(x.X); watched[r] {
						if _, plain := x.X.(*ast.Ident); !plain {
							rows = append(rows, row{f, fd.Name.Name, exprText2(x.X)})
						}
					}
				}
				return true
			})
		}
	}
	sort.Slice(rows, func(i, j int) bool {
		a, b := rows[i], rows[j]
		if a.file != b.file {
			return a.file < b.file
		}
		if a.fn != b.fn {
			return a.fn < b.fn
		}
		return a.lhs < b.lhs
	})
	// dedupe
	var out []row
	for i, r := range rows {
		if i == 0 || rows[i-1] != r {
			out = append(out, r)
		}
	}
	var b strings.Builder
	b.WriteString("import NfpmModel.Bytes\nnamespace Nfpm.Generated\nopen Nfpm\n")
	b.WriteString("/-- every assignment (or delete) through info / a content entry / a file info: (file, function, target) -/\n")
	b.WriteString("def inPlaceWrites : List (Bytes × Bytes × Bytes) := [\n")
	for i, r := range out {
		sep := ","
		if i == len(out)-1 {
			sep = ""
		}
		fmt.Fprintf(&b, "  (%s, %s, %s)%s\n", leanStr(r.file), leanStr(r.fn), leanStr(r.lhs), sep)
	}
	b.WriteString("]\nend Nfpm.Generated\n")
	return b.String(), nil
}

func exprText2(e ast.Expr) string {
	switch x := e.(type) {
	case *ast.SelectorExpr:
		return exprText2(x.X) + "." + x.Sel.Name
	case *ast.Ident:
		return x.Name
	case *ast.IndexExpr:
		return exprText2(x.X) + "[]"
	case *ast.StarExpr:
		return "*" + exprText2(x.X)
	case *ast.ParenExpr:
		return exprText2(x.X)
	}
	return "?"
}
