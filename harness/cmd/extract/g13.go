package main

import (
	"encoding/json"
	"fmt"
	"go/ast"
	"go/importer"
	"go/parser"
	"go/token"
	"go/types"
	"io"
	"os"
	"os/exec"
	"path/filepath"
	"sort"
	"strings"
)

// ---------- G13: in-place writes into nfpm's own data structures, by type ----------
//
// Every assignment, increment or delete whose target is reached THROUGH A POINTER (or a map) to a struct type
// declared in the nfpm module – *nfpm.Info, *files.Content, *files.ContentFileInfo, … – is recorded as
// (package, exported functions of the package it is reachable from, "Type.field.path").  The table is computed from go/types information, so it does not depend on
// how variables are named (a renamed local neither hides a write nor changes the table); moving a write into another
// function, or writing a field that was not written before, changes it.

const nfpmModule = "github.com/goreleaser/nfpm/v2"

type listedPkg struct {
	ImportPath string
	Export     string
	Dir        string
	GoFiles    []string
}

// typeCheckRepo type-checks the given packages of /repo (import paths relative to the module root, "" = root)
// against the export data `go list -export -deps` leaves in the build cache.
func typeCheckRepo(rel []string) (*token.FileSet, map[string]*types.Info, map[string][]*ast.File, error) {
	cmd := exec.Command("go", "list", "-export", "-deps", "-json=ImportPath,Export,Dir,GoFiles", "./...")
	cmd.Dir = *repo
	cmd.Env = append(os.Environ(), "GOFLAGS=-mod=mod", "GOPROXY=off", "GOSUMDB=off", "GOTOOLCHAIN=local", "CGO_ENABLED=0")
	out, err := cmd.Output()
	if err != nil {
		msg := ""
		if ee, ok := err.(*exec.ExitError); ok {
			msg = string(ee.Stderr)
		}
		return nil, nil, nil, fmt.Errorf("go list -export: %v %s", err, msg)
	}
	pkgs := map[string]listedPkg{}
	dec := json.NewDecoder(strings.NewReader(string(out)))
	for dec.More() {
		var p listedPkg
		if err := dec.Decode(&p); err != nil {
			return nil, nil, nil, err
		}
		pkgs[p.ImportPath] = p
	}
	fset := token.NewFileSet()
	imp := importer.ForCompiler(fset, "gc", func(path string) (io.ReadCloser, error) {
		p, ok := pkgs[path]
		if !ok || p.Export == "" {
			return nil, fmt.Errorf("no export data for %s", path)
		}
		return os.Open(p.Export)
	})
	infos := map[string]*types.Info{}
	asts := map[string][]*ast.File{}
	for _, r := range rel {
		ip := nfpmModule
		if r != "" {
			ip += "/" + r
		}
		p, ok := pkgs[ip]
		if !ok {
			return nil, nil, nil, fmt.Errorf("package %s not listed", ip)
		}
		var fs []*ast.File
		for _, gf := range p.GoFiles {
			f, err := parser.ParseFile(fset, filepath.Join(p.Dir, gf), nil, 0)
			if err != nil {
				return nil, nil, nil, err
			}
			fs = append(fs, f)
		}
		info := &types.Info{Types: map[ast.Expr]types.TypeAndValue{}, Uses: map[*ast.Ident]types.Object{}, Defs: map[*ast.Ident]types.Object{}, Selections: map[*ast.SelectorExpr]*types.Selection{}}
		conf := types.Config{Importer: imp, Error: func(error) {}}
		if _, err := conf.Check(ip, fset, fs, info); err != nil {
			return nil, nil, nil, fmt.Errorf("type-check %s: %v", ip, err)
		}
		infos[r] = info
		asts[r] = fs
	}
	return fset, infos, asts, nil
}

// ownStruct returns the short name ("nfpm.Info", "files.Content") of a named struct type of the nfpm module.
func ownStruct(t types.Type) (string, bool) {
	n, ok := t.(*types.Named)
	if !ok {
		if a, isAlias := t.(*types.Alias); isAlias {
			return ownStruct(types.Unalias(a))
		}
		return "", false
	}
	if n.Obj().Pkg() == nil || !strings.HasPrefix(n.Obj().Pkg().Path(), nfpmModule) {
		return "", false
	}
	if _, ok := n.Underlying().(*types.Struct); !ok {
		return "", false
	}
	return n.Obj().Pkg().Name() + "." + n.Obj().Name(), true
}

// writeTarget describes the memory an lvalue denotes: the last pointer (or map) hop on the way to it and the
// field path from there.  ok = false when the lvalue is a plain variable or lives in a local struct value.
func writeTarget(info *types.Info, e ast.Expr) (string, bool) {
	path := ""
	for {
		switch x := e.(type) {
		case *ast.ParenExpr:
			e = x.X
		case *ast.SelectorExpr:
			tv, ok := info.Types[x.X]
			if !ok {
				return "", false
			}
			path = "." + x.Sel.Name + path
			if p, isPtr := tv.Type.Underlying().(*types.Pointer); isPtr {
				if name, own := ownStruct(p.Elem()); own {
					return name + path, true
				}
				return "", false // through a pointer to a foreign type (tar.Header, …): not nfpm's data
			}
			e = x.X
		case *ast.IndexExpr:
			tv, ok := info.Types[x.X]
			if !ok {
				return "", false
			}
			switch tv.Type.Underlying().(type) {
			case *types.Map, *types.Slice:
				// the element lives behind the map / slice header: continue to find whose field that is
				path = "[]" + path
				e = x.X
			default:
				path = "[]" + path
				e = x.X
			}
		case *ast.StarExpr:
			tv, ok := info.Types[x.X]
			if !ok {
				return "", false
			}
			if p, isPtr := tv.Type.Underlying().(*types.Pointer); isPtr {
				if name, own := ownStruct(p.Elem()); own {
					return name + path, true
				}
			}
			return "", false
		default:
			return "", false
		}
	}
}

func genInPlace() (string, error) {
	type row struct{ pkg, fn, target string }
	var rows []row
	rels := []string{"", "files", "deb", "rpm", "apk", "arch", "ipk"}
	_, infos, asts, err := typeCheckRepo(rels)
	if err != nil {
		return "", err
	}
	for _, r := range rels {
		info := infos[r]
		pkgName := r
		if r == "" {
			pkgName = "nfpm"
		}
		// a write is attributed to the exported functions of its package from which it can be reached through the
		// package's own calls (static references), not to the function it textually sits in: extracting a helper or
		// inlining one leaves the attribution unchanged, a write in a new place of the call graph changes it
		decls := map[*types.Func]*ast.FuncDecl{}
		for _, f := range asts[r] {
			for _, d := range f.Decls {
				if fd, ok := d.(*ast.FuncDecl); ok && fd.Body != nil {
					if fn, ok := info.Defs[fd.Name].(*types.Func); ok {
						decls[fn] = fd
					}
				}
			}
		}
		edges := map[*types.Func][]*types.Func{}
		for fn, fd := range decls {
			ast.Inspect(fd.Body, func(n ast.Node) bool {
				if id, ok := n.(*ast.Ident); ok {
					if callee, ok := info.Uses[id].(*types.Func); ok {
						if _, local := decls[callee]; local {
							edges[fn] = append(edges[fn], callee)
						}
					}
				}
				return true
			})
		}
		owners := map[*types.Func]map[string]bool{}
		for e, efd := range decls {
			if !efd.Name.IsExported() {
				continue
			}
			seen := map[*types.Func]bool{}
			var dfs func(x *types.Func)
			dfs = func(x *types.Func) {
				if seen[x] {
					return
				}
				seen[x] = true
				if owners[x] == nil {
					owners[x] = map[string]bool{}
				}
				owners[x][efd.Name.Name] = true
				for _, y := range edges[x] {
					dfs(y)
				}
			}
			dfs(e)
		}
		ownerName := func(fd *ast.FuncDecl) string {
			fn, _ := info.Defs[fd.Name].(*types.Func)
			var names []string
			for n := range owners[fn] {
				names = append(names, n)
			}
			if len(names) == 0 {
				return fd.Name.Name
			}
			sort.Strings(names)
			return strings.Join(names, "|")
		}
		for _, f := range asts[r] {
			for _, d := range f.Decls {
				fd, ok := d.(*ast.FuncDecl)
				if !ok || fd.Body == nil {
					continue
				}
				if strings.HasPrefix(fd.Name.Name, "expandEnvVars") || strings.HasPrefix(fd.Name.Name, "expand") && pkgName == "nfpm" || fd.Name.Name == "Swap" {
					continue // parse-time construction of the Config / sort.Interface plumbing
				}
				add := func(e ast.Expr, wrap string) {
					if t, ok := writeTarget(info, e); ok {
						if wrap != "" {
							t = wrap + "(" + t + ")"
						}
						rows = append(rows, row{pkgName, ownerName(fd), t})
					}
				}
				ast.Inspect(fd.Body, func(n ast.Node) bool {
					switch x := n.(type) {
					case *ast.AssignStmt:
						if x.Tok == token.DEFINE {
							return true
						}
						for _, l := range x.Lhs {
							if _, plain := l.(*ast.Ident); !plain {
								add(l, "")
							}
						}
					case *ast.CallExpr:
						if id, ok := x.Fun.(*ast.Ident); ok && id.Name == "delete" && len(x.Args) > 0 {
							add(&ast.IndexExpr{X: x.Args[0]}, "delete")
						}
					case *ast.IncDecStmt:
						if _, plain := x.X.(*ast.Ident); !plain {
							add(x.X, "")
						}
					}
					return true
				})
			}
		}
	}
	sort.Slice(rows, func(i, j int) bool {
		a, b := rows[i], rows[j]
		if a.pkg != b.pkg {
			return a.pkg < b.pkg
		}
		if a.fn != b.fn {
			return a.fn < b.fn
		}
		return a.target < b.target
	})
	var out []row
	for i, r := range rows {
		if i == 0 || rows[i-1] != r {
			out = append(out, r)
		}
	}
	var b strings.Builder
	b.WriteString("import NfpmModel.Bytes\nnamespace Nfpm.Generated\nopen Nfpm\n")
	b.WriteString("/-- every assignment (or delete) that reaches its target through a pointer or map to one of nfpm's own struct types: (package, exported functions it is reachable from, Type.field.path) -/\n")
	b.WriteString("def inPlaceWrites : List (Bytes × Bytes × Bytes) := [\n")
	for i, r := range out {
		sep := ","
		if i == len(out)-1 {
			sep = ""
		}
		fmt.Fprintf(&b, "  (%s, %s, %s)%s\n", leanStr(r.pkg), leanStr(r.fn), leanStr(r.target), sep)
	}
	b.WriteString("]\nend Nfpm.Generated\n")
	return b.String(), nil
}
