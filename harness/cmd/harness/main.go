// Command harness runs, for one property, the correspondence between the Lean
// model (through the compiled driver) and the real nfpm code linked from /repo,
// and the search for concrete failing inputs on the real code.
package main

import (
	"flag"
	"fmt"
	"io"
	"os"
	"strings"

	"github.com/goreleaser/nfpm/v2/deprecation"
	"verif/harness/internal/model"
	"verif/harness/internal/props"
	"verif/harness/internal/report"
	"verif/harness/internal/rng"
)

func main() {
	prop := flag.String("prop", "", "property id (C01..C17)")
	tier := flag.String("tier", "quick", "quick|thorough")
	seed := flag.Uint64("seed", 1, "PRNG seed")
	driver := flag.String("driver", "/verif/lean/.lake/build/bin/driver", "compiled Lean driver")
	out := flag.String("out", "", "result json")
	replays := flag.String("replays", "/verif/replays", "replay directory")
	repo := flag.String("repo", "/repo", "nfpm tree")
	replay := flag.String("replay", "", "replay file to re-run")
	flag.Parse()
	// what nfpm reads from the process environment is scenario input, set by the families that need it (see bin/check)
	for _, k := range []string{"SOURCE_DATE_EPOCH", "NFPM_PASSPHRASE", "NFPM_DEB_PASSPHRASE", "NFPM_RPM_PASSPHRASE", "NFPM_APK_PASSPHRASE"} {
		os.Unsetenv(k)
	}
	// the notices nfpm prints about deprecated settings would drown the run; the race-detector workload keeps nfpm's own
	// notice writer (it is process-wide state every deb and ipk packaging may write through)
	props.DefaultNoticer = deprecation.Noticer
	if *prop != "C12child" {
		deprecation.Noticer = io.Discard
	}
	fn, ok := props.Registry[*prop]
	if !ok {
		fmt.Fprintf(os.Stderr, "unknown property %q (have %s)\n", *prop, strings.Join(props.Names(), " "))
		os.Exit(2)
	}
	d, err := model.Start(*driver)
	if err != nil {
		fmt.Fprintln(os.Stderr, "cannot start driver:", err)
		os.Exit(2)
	}
	defer d.Close()
	tmp, err := os.MkdirTemp("", "verif-"+*prop+"-")
	if err != nil {
		fmt.Fprintln(os.Stderr, err)
		os.Exit(2)
	}
	defer os.RemoveAll(tmp)
	rep := report.New(*prop, *tier, *seed)
	ctx := &props.Ctx{Prop: *prop, Tier: *tier, Seed: *seed, R: rng.New(*seed), D: d, Rep: rep, Tmp: tmp, Repo: *repo, Replay: *replay}
	runErr := fn(ctx)
	if runErr != nil {
		rep.Note("harness error: %v", runErr)
	}
	if *out != "" {
		if err := rep.Write(*out, *replays); err != nil {
			fmt.Fprintln(os.Stderr, "write report:", err)
			os.RemoveAll(tmp)
			os.Exit(2)
		}
	}
	if runErr != nil {
		fmt.Fprintln(os.Stderr, "harness error:", runErr)
		os.RemoveAll(tmp)
		os.Exit(3)
	}
}
