package main

import (
	"bytes"
	"fmt"
	"os"
	"path/filepath"

	"github.com/goreleaser/nfpm/v2"
	_ "github.com/goreleaser/nfpm/v2/apk"
	_ "github.com/goreleaser/nfpm/v2/arch"
	_ "github.com/goreleaser/nfpm/v2/deb"
	"github.com/goreleaser/nfpm/v2/files"
	_ "github.com/goreleaser/nfpm/v2/ipk"
	_ "github.com/goreleaser/nfpm/v2/rpm"
	"verif/harness/decode"
)

func main() {
	d, _ := os.MkdirTemp("", "scr")
	defer os.RemoveAll(d)
	src := filepath.Join(d, "f")
	os.WriteFile(src, []byte("hello"), 0o644)
	for _, f := range []string{"deb", "ipk", "apk", "archlinux"} {
		info := nfpm.WithDefaults(&nfpm.Info{Name: "foo", Arch: "amd64", Version: "1.0.0", Maintainer: "a <a@b.c>", Description: "d",
			Overridables: nfpm.Overridables{Contents: files.Contents{
				{Source: src, Destination: "/a/x"},
				{Destination: "/b", Type: files.TypeDir},
			}}})
		p, _ := nfpm.Get(f)
		var buf bytes.Buffer
		if err := p.Package(info, &buf); err != nil {
			fmt.Println(f, "ERR", err)
			continue
		}
		var es []decode.Entry
		switch f {
		case "deb":
			x, err := decode.ReadDeb(buf.Bytes())
			if err != nil { fmt.Println(err); continue }
			es = x.Data
		case "ipk":
			x, err := decode.ReadIpk(buf.Bytes())
			if err != nil { fmt.Println(err); continue }
			es = x.Data
		case "apk":
			x, err := decode.ReadApk(buf.Bytes())
			if err != nil { fmt.Println(err); continue }
			es = x.Segments[len(x.Segments)-1].Entries
		case "archlinux":
			x, err := decode.ReadArch(buf.Bytes())
			if err != nil { fmt.Println(err); continue }
			es = x.Entries
			fmt.Printf("%s\n", x.MtreeRaw)
		}
		for _, e := range es {
			fmt.Printf("%s %q type=%c mode=%o\n", f, e.Name, e.Type, e.Mode)
		}
	}
}
