package main

import (
	"archive/tar"
	"bytes"
	"encoding/hex"
	"fmt"
	"os/exec"
	"strings"
	"time"
)

func main() {
	var buf bytes.Buffer
	tw := tar.NewWriter(&buf)
	type m struct {
		h    tar.Header
		body string
	}
	ms := []m{
		{tar.Header{Name: "./usr/", Mode: 0o755, Typeflag: tar.TypeDir, ModTime: time.Unix(1700000000, 0), Uname: "root", Gname: "root", Format: tar.FormatGNU}, ""},
		{tar.Header{Name: "./usr/bin/x", Mode: 0o4755, Typeflag: tar.TypeReg, Size: 3, ModTime: time.Unix(1600000100, 5e8), Uname: "app", Gname: "wheel", Format: tar.FormatGNU}, "abc"},
		{tar.Header{Name: "./usr/bin/l", Typeflag: tar.TypeSymlink, Linkname: "../lib/t", ModTime: time.Unix(0, 0), Format: tar.FormatGNU}, ""},
		{tar.Header{Name: "./b512", Mode: 0o644, Typeflag: tar.TypeReg, Size: 512, ModTime: time.Unix(1, 0), Format: tar.FormatGNU}, strings.Repeat("z", 512)},
	}
	req := fmt.Sprintf("tarfile %d", len(ms))
	H := func(s string) string {
		if s == "" {
			return "-"
		}
		return hex.EncodeToString([]byte(s))
	}
	for _, x := range ms {
		h := x.h
		if err := tw.WriteHeader(&h); err != nil {
			panic(err)
		}
		tw.Write([]byte(x.body))
		req += fmt.Sprintf(" %s %d %d %d %d %d %d %s %s %s %s", H(h.Name), h.Mode, h.Uid, h.Gid, h.Size, h.ModTime.Unix(), h.Typeflag, H(h.Linkname), H(h.Uname), H(h.Gname), H(x.body))
	}
	tw.Close()
	cmd := exec.Command("/verif/lean/.lake/build/bin/driver")
	cmd.Stdin = strings.NewReader(req + "\ntarread " + hex.EncodeToString(buf.Bytes()) + "\n")
	out, _ := cmd.Output()
	lines := strings.Split(strings.TrimSpace(string(out)), "\n")
	fmt.Println("model == real:", lines[0] == hex.EncodeToString(buf.Bytes()), len(buf.Bytes()))
	fmt.Println(lines[1][:200])
}
