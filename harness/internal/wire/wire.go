// Package wire encodes requests for the Lean driver (see lean/NfpmModel/Wire.lean).
package wire

import (
	"encoding/hex"
	"fmt"
	"strconv"
	"strings"
)

func H(s string) string {
	if s == "" {
		return "-"
	}
	return hex.EncodeToString([]byte(s))
}

func UnH(t string) (string, error) {
	if t == "-" {
		return "", nil
	}
	b, err := hex.DecodeString(t)
	return string(b), err
}

func B(b bool) string {
	if b {
		return "1"
	}
	return "0"
}

// ZeroTime is Go's zero time.Time in unix seconds.
const ZeroTime int64 = -62135596800

type FileInfo struct {
	Owner, Group string
	Mode         uint32
	MTime        int64
	Size         int64
}

type Content struct {
	Src, Dst, Type, Packager string
	Info                     *FileInfo
}

func (c Content) Enc() string {
	if c.Info == nil {
		return fmt.Sprintf("%s %s %s %s 0", H(c.Src), H(c.Dst), H(c.Type), H(c.Packager))
	}
	return fmt.Sprintf("%s %s %s %s 1 %s %s %d %d %d", H(c.Src), H(c.Dst), H(c.Type), H(c.Packager),
		H(c.Info.Owner), H(c.Info.Group), c.Info.Mode, c.Info.MTime, c.Info.Size)
}

func (c Content) String() string {
	s := fmt.Sprintf("{src=%q dst=%q type=%q pk=%q", c.Src, c.Dst, c.Type, c.Packager)
	if c.Info != nil {
		s += fmt.Sprintf(" owner=%q group=%q mode=%o mtime=%d size=%d", c.Info.Owner, c.Info.Group, c.Info.Mode, c.Info.MTime, c.Info.Size)
	}
	return s + "}"
}

type GlobHit struct {
	Path  string
	IsDir bool
}
type GlobRes struct {
	Idx            int
	Err            int // 0 none 1 not-exist 2 other
	PatternMissing bool
	HasMatchers    bool
	Hits           []GlobHit
}
type WalkEnt struct {
	Rel, Path string
	Kind      int // 0 dir 1 symlink 2 file
	Mode      uint32
	MTime     int64
	Link      string
}
type Walk struct {
	Idx  int
	OK   bool
	Ents []WalkEnt
}
type Stat struct {
	Path  string
	IsDir bool
	Mode  uint32
	MTime int64
	Size  int64
}
type Link struct{ Path, Target string }

type Oracle struct {
	Globs []GlobRes
	Walks []Walk
	Stats []Stat
	Links []Link
}

func (o Oracle) Enc() string {
	var b strings.Builder
	fmt.Fprintf(&b, "%d", len(o.Globs))
	for _, g := range o.Globs {
		fmt.Fprintf(&b, " %d %d %s %s %d", g.Idx, g.Err, B(g.PatternMissing), B(g.HasMatchers), len(g.Hits))
		for _, h := range g.Hits {
			fmt.Fprintf(&b, " %s %s", H(h.Path), B(h.IsDir))
		}
	}
	fmt.Fprintf(&b, " %d", len(o.Walks))
	for _, w := range o.Walks {
		fmt.Fprintf(&b, " %d %s %d", w.Idx, B(w.OK), len(w.Ents))
		for _, e := range w.Ents {
			fmt.Fprintf(&b, " %s %s %d %d %d %s", H(e.Rel), H(e.Path), e.Kind, e.Mode, e.MTime, H(e.Link))
		}
	}
	fmt.Fprintf(&b, " %d", len(o.Stats))
	for _, s := range o.Stats {
		fmt.Fprintf(&b, " %s %s %d %d %d", H(s.Path), B(s.IsDir), s.Mode, s.MTime, s.Size)
	}
	fmt.Fprintf(&b, " %d", len(o.Links))
	for _, l := range o.Links {
		fmt.Fprintf(&b, " %s %s", H(l.Path), H(l.Target))
	}
	return b.String()
}

type PlanCfg struct {
	Packager string
	Umask    uint32
	NoGlob   bool
	MTime    int64
}

func PlanReq(cfg PlanCfg, raw []Content, o Oracle) string {
	var b strings.Builder
	fmt.Fprintf(&b, "plan %s %d %s %d %d", H(cfg.Packager), cfg.Umask, B(cfg.NoGlob), cfg.MTime, len(raw))
	for _, c := range raw {
		b.WriteString(" ")
		b.WriteString(c.Enc())
	}
	b.WriteString(" ")
	b.WriteString(o.Enc())
	return b.String()
}

// ParseContents parses "ok n <10 tokens per entry>" or "err class".
func ParseContents(ans string) (contents []Content, errClass string, err error) {
	toks := strings.Fields(ans)
	if len(toks) == 0 {
		return nil, "", fmt.Errorf("empty answer")
	}
	switch toks[0] {
	case "err":
		if len(toks) != 2 {
			return nil, "", fmt.Errorf("bad err answer %q", ans)
		}
		return nil, toks[1], nil
	case "ok":
	default:
		return nil, "", fmt.Errorf("bad answer %q", ans)
	}
	n, e := strconv.Atoi(toks[1])
	if e != nil || len(toks) != 2+10*n {
		return nil, "", fmt.Errorf("bad ok answer (n=%d, %d tokens)", n, len(toks))
	}
	for i := 0; i < n; i++ {
		t := toks[2+10*i:]
		var c Content
		if c.Src, e = UnH(t[0]); e != nil {
			return nil, "", e
		}
		c.Dst, _ = UnH(t[1])
		c.Type, _ = UnH(t[2])
		c.Packager, _ = UnH(t[3])
		if t[4] == "1" {
			fi := &FileInfo{}
			fi.Owner, _ = UnH(t[5])
			fi.Group, _ = UnH(t[6])
			m, _ := strconv.ParseUint(t[7], 10, 64)
			fi.Mode = uint32(m)
			fi.MTime, _ = strconv.ParseInt(t[8], 10, 64)
			fi.Size, _ = strconv.ParseInt(t[9], 10, 64)
			c.Info = fi
		}
		contents = append(contents, c)
	}
	return contents, "", nil
}

func ParseBytesList(ans string) ([]string, error) {
	toks := strings.Fields(ans)
	if len(toks) == 0 {
		return nil, fmt.Errorf("empty answer")
	}
	n, e := strconv.Atoi(toks[0])
	if e != nil || len(toks) != n+1 {
		return nil, fmt.Errorf("bad list answer %q", ans)
	}
	res := make([]string, n)
	for i := range res {
		if res[i], e = UnH(toks[1+i]); e != nil {
			return nil, e
		}
	}
	return res, nil
}

// Member is one archive member in the model's vocabulary (lean: Nfpm.Member).
type Member struct {
	Name         string
	Kind         byte // '0' regular, '5' dir, '2' symlink
	Mode         uint64
	Uname, Gname string
	MTime        int64
	Size         int64
	Link         string
	Src          string
	Flags        uint64
	InPayload    bool
}

func (m Member) Enc() string {
	return fmt.Sprintf("%s %d %d %s %s %d %d %s %s %d %s", H(m.Name), m.Kind, m.Mode, H(m.Uname), H(m.Gname), m.MTime, m.Size, H(m.Link), H(m.Src), m.Flags, B(m.InPayload))
}

func (m Member) String() string {
	return fmt.Sprintf("{%q kind=%c mode=%o %s:%s mtime=%d size=%d link=%q src=%q flags=%d payload=%v}", m.Name, m.Kind, m.Mode, m.Uname, m.Gname, m.MTime, m.Size, m.Link, m.Src, m.Flags, m.InPayload)
}

func EncMembers(ms []Member) string {
	var b strings.Builder
	fmt.Fprintf(&b, "%d", len(ms))
	for _, m := range ms {
		b.WriteString(" ")
		b.WriteString(m.Enc())
	}
	return b.String()
}

func ParseMembers(ans string) ([]Member, error) {
	toks := strings.Fields(ans)
	if len(toks) == 0 {
		return nil, fmt.Errorf("empty answer")
	}
	n, e := strconv.Atoi(toks[0])
	if e != nil || len(toks) != 1+11*n {
		return nil, fmt.Errorf("bad members answer %q", ans)
	}
	res := make([]Member, n)
	for i := range res {
		t := toks[1+11*i:]
		m := &res[i]
		m.Name, _ = UnH(t[0])
		k, _ := strconv.Atoi(t[1])
		m.Kind = byte(k)
		m.Mode, _ = strconv.ParseUint(t[2], 10, 64)
		m.Uname, _ = UnH(t[3])
		m.Gname, _ = UnH(t[4])
		m.MTime, _ = strconv.ParseInt(t[5], 10, 64)
		m.Size, _ = strconv.ParseInt(t[6], 10, 64)
		m.Link, _ = UnH(t[7])
		m.Src, _ = UnH(t[8])
		m.Flags, _ = strconv.ParseUint(t[9], 10, 64)
		m.InPayload = t[10] == "1"
	}
	return res, nil
}

// EncContentsOut encodes a plan in the 10-token-per-entry output format.
func EncContentsOut(cs []Content) string {
	var b strings.Builder
	fmt.Fprintf(&b, "%d", len(cs))
	for _, c := range cs {
		fi := c.Info
		has := "1"
		if fi == nil {
			fi = &FileInfo{MTime: ZeroTime}
			has = "0"
		}
		fmt.Fprintf(&b, " %s %s %s %s %s %s %s %d %d %d", H(c.Src), H(c.Dst), H(c.Type), H(c.Packager), has,
			H(fi.Owner), H(fi.Group), fi.Mode, fi.MTime, fi.Size)
	}
	return b.String()
}
