// Package model talks to the compiled Lean driver over the line protocol.
package model

import (
	"bufio"
	"fmt"
	"io"
	"os"
	"os/exec"
	"strings"
	"sync"
)

type Driver struct {
	cmd *exec.Cmd
	in  io.WriteCloser
	out *bufio.Reader
	mu  sync.Mutex
	N   int // requests answered
}

func Start(path string) (*Driver, error) {
	cmd := exec.Command(path)
	in, err := cmd.StdinPipe()
	if err != nil {
		return nil, err
	}
	outp, err := cmd.StdoutPipe()
	if err != nil {
		return nil, err
	}
	cmd.Stderr = os.Stderr
	if err := cmd.Start(); err != nil {
		return nil, err
	}
	return &Driver{cmd: cmd, in: in, out: bufio.NewReaderSize(outp, 1<<20)}, nil
}

func (d *Driver) Close() {
	d.in.Close()
	_ = d.cmd.Wait()
}

// Ask sends one request line and returns the answer line.
func (d *Driver) Ask(req string) (string, error) {
	res, err := d.Batch([]string{req})
	if err != nil {
		return "", err
	}
	return res[0], nil
}

// Batch pipelines many requests.
func (d *Driver) Batch(reqs []string) ([]string, error) {
	d.mu.Lock()
	defer d.mu.Unlock()
	errc := make(chan error, 1)
	go func() {
		w := bufio.NewWriterSize(d.in, 1<<20)
		for _, r := range reqs {
			if strings.ContainsAny(r, "\n\r") {
				errc <- fmt.Errorf("request contains newline")
				return
			}
			w.WriteString(r)
			w.WriteByte('\n')
		}
		errc <- w.Flush()
	}()
	res := make([]string, 0, len(reqs))
	for range reqs {
		line, err := d.out.ReadString('\n')
		if err != nil {
			return res, fmt.Errorf("driver died after %d answers: %w", len(res), err)
		}
		res = append(res, strings.TrimRight(line, "\n"))
		d.N++
	}
	if err := <-errc; err != nil {
		return res, err
	}
	return res, nil
}
