// Package report collects what a harness run covered and found.
package report

import (
	"crypto/sha256"
	"encoding/hex"
	"encoding/json"
	"fmt"
	"os"
	"path/filepath"
	"sort"
	"sync"
)

// Finding is a concrete failing input of a property on the real implementation.
type Finding struct {
	Property string         `json:"property"`
	Family   string         `json:"family"`
	Shape    string         `json:"shape"` // class used to match known findings
	What     string         `json:"what"`
	Input    map[string]any `json:"input"`
	Replay   string         `json:"replay,omitempty"`
	Seed     uint64         `json:"seed"` // seed and tier of the run that found it: the check is deterministic in them,
	Tier     string         `json:"tier"` // so `bin/check Cxx --replay <file>` re-runs exactly that exploration
}

// Disagreement is a point where model and implementation differ.
type Disagreement struct {
	Family string         `json:"family"`
	What   string         `json:"what"`
	Input  map[string]any `json:"input"`
	Model  string         `json:"model"`
	Impl   string         `json:"impl"`
}

type Family struct {
	Name         string         `json:"name"`
	Evaluations  int            `json:"evaluations"`
	Nontrivial   int            `json:"distinct_nontrivial"`
	Exhaustive   bool           `json:"exhaustive"`
	Rule         string         `json:"rule"`
	Distribution map[string]int `json:"distribution,omitempty"`
	Samples      []any          `json:"samples,omitempty"`
	seen         map[[8]byte]struct{}
}

type Report struct {
	Property      string         `json:"property"`
	Tier          string         `json:"tier"`
	Seed          uint64         `json:"seed"`
	Families      []*Family      `json:"families"`
	Disagreements []Disagreement `json:"disagreements"`
	Findings      []Finding      `json:"findings"`
	Notes         []string       `json:"notes,omitempty"`
	mu            sync.Mutex
	maxKeep       int
}

func New(prop, tier string, seed uint64) *Report {
	return &Report{Property: prop, Tier: tier, Seed: seed, maxKeep: 40}
}

func (r *Report) Family(name, rule string) *Family {
	r.mu.Lock()
	defer r.mu.Unlock()
	f := &Family{Name: name, Rule: rule, Distribution: map[string]int{}, seen: map[[8]byte]struct{}{}}
	r.Families = append(r.Families, f)
	return f
}

// Eval records one evaluated case; key identifies the canonical case for
// distinctness, nontrivial says whether it counts by the family's rule.
func (f *Family) Eval(key string, nontrivial bool) {
	f.Evaluations++
	if !nontrivial {
		return
	}
	h := sha256.Sum256([]byte(key))
	var k [8]byte
	copy(k[:], h[:8])
	if _, ok := f.seen[k]; !ok {
		f.seen[k] = struct{}{}
		f.Nontrivial++
	}
}

func (f *Family) Count(label string) { f.Distribution[label]++ }

func (f *Family) Sample(s any) {
	if len(f.Samples) < 5 {
		f.Samples = append(f.Samples, s)
	}
}

func (r *Report) Disagree(d Disagreement) {
	r.mu.Lock()
	defer r.mu.Unlock()
	if len(r.Disagreements) < r.maxKeep {
		r.Disagreements = append(r.Disagreements, d)
	}
}

func (r *Report) Find(f Finding) {
	r.mu.Lock()
	defer r.mu.Unlock()
	// keep one representative per shape plus a few extra
	n := 0
	for _, x := range r.Findings {
		if x.Shape == f.Shape {
			n++
		}
	}
	if n < 3 && len(r.Findings) < r.maxKeep {
		r.Findings = append(r.Findings, f)
	}
}

func (r *Report) Note(format string, a ...any) {
	r.mu.Lock()
	defer r.mu.Unlock()
	r.Notes = append(r.Notes, fmt.Sprintf(format, a...))
}

// Write stores the report and one replay file per finding / disagreement class.
func (r *Report) Write(path, replayDir string) error {
	_ = os.MkdirAll(replayDir, 0o755)
	for i := range r.Findings {
		r.Findings[i].Seed, r.Findings[i].Tier = r.Seed, r.Tier
		b, _ := json.MarshalIndent(r.Findings[i], "", " ")
		h := sha256.Sum256(b)
		p := filepath.Join(replayDir, fmt.Sprintf("%s-%s.json", r.Property, hex.EncodeToString(h[:6])))
		r.Findings[i].Replay = p
		b, _ = json.MarshalIndent(r.Findings[i], "", " ")
		if err := os.WriteFile(p, b, 0o644); err != nil {
			return err
		}
	}
	sort.SliceStable(r.Findings, func(i, j int) bool { return r.Findings[i].Shape < r.Findings[j].Shape })
	b, err := json.MarshalIndent(r, "", " ")
	if err != nil {
		return err
	}
	return os.WriteFile(path, b, 0o644)
}
