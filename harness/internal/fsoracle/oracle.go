// Package fsoracle gathers, with the standard library and the fileglob
// dependency only (no nfpm code), the file-system facts that the Lean model's
// Oracle takes as data: glob matches, directory walks, stat and readlink
// results for exactly the paths nfpm would query.
package fsoracle

import (
	"errors"
	"io/fs"
	"os"
	"path/filepath"
	"strings"

	"github.com/goreleaser/fileglob"
	"verif/harness/internal/wire"
)

func unixOrZero(fi fs.FileInfo) int64 {
	t := fi.ModTime()
	if t.IsZero() {
		return wire.ZeroTime
	}
	return t.Unix()
}

type builder struct {
	o     wire.Oracle
	stats map[string]bool
	links map[string]bool
}

func (b *builder) stat(p string) {
	if p == "" || b.stats[p] {
		return
	}
	b.stats[p] = true
	fi, err := os.Stat(p)
	if err != nil {
		return
	}
	b.o.Stats = append(b.o.Stats, wire.Stat{Path: p, IsDir: fi.IsDir(), Mode: uint32(fi.Mode()), MTime: unixOrZero(fi), Size: fi.Size()})
}

func (b *builder) link(p string) {
	if b.links[p] {
		return
	}
	b.links[p] = true
	if t, err := os.Readlink(p); err == nil {
		b.o.Links = append(b.o.Links, wire.Link{Path: p, Target: t})
	}
}

func classify(t string) string {
	switch t {
	case "dir":
		return "dir"
	case "implicit dir":
		return "implicit"
	case "ghost", "symlink", "doc", "licence", "license", "readme", "debian changelog":
		return "filelike"
	case "tree":
		return "tree"
	case "config", "config|noreplace", "config|missingok", "file", "":
		return "globbed"
	}
	return "invalid"
}

// Build gathers the oracle for a raw content list.
func Build(raw []wire.Content, noGlob bool) wire.Oracle {
	b := &builder{stats: map[string]bool{}, links: map[string]bool{}}
	for i, c := range raw {
		switch classify(c.Type) {
		case "dir", "filelike":
			b.stat(c.Src)
		case "tree":
			w := wire.Walk{Idx: i, OK: true}
			err := filepath.WalkDir(c.Src, func(path string, d fs.DirEntry, err error) error {
				if err != nil {
					return err
				}
				rel, err := filepath.Rel(c.Src, path)
				if err != nil {
					return err
				}
				e := wire.WalkEnt{Rel: rel, Path: path, MTime: wire.ZeroTime}
				switch {
				case d.IsDir():
					info, err := d.Info()
					if err != nil {
						return err
					}
					e.Kind = 0
					e.Mode = uint32(info.Mode())
					e.MTime = unixOrZero(info)
				case d.Type()&os.ModeSymlink != 0:
					ld, err := os.Readlink(path)
					if err != nil {
						return err
					}
					e.Kind = 1
					e.Mode = uint32(d.Type())
					e.Link = filepath.ToSlash(strings.TrimPrefix(ld, filepath.VolumeName(ld)))
				default:
					e.Kind = 2
					e.Mode = uint32(d.Type())
					b.stat(path)
				}
				w.Ents = append(w.Ents, e)
				return nil
			})
			if err != nil {
				w.OK = false
				w.Ents = nil
			}
			b.o.Walks = append(b.o.Walks, w)
		case "globbed":
			pattern := filepath.ToSlash(c.Src)
			g := wire.GlobRes{Idx: i}
			opts := []fileglob.OptFunc{fileglob.MatchDirectoryIncludesContents}
			if noGlob {
				opts = append(opts, fileglob.QuoteMeta)
			}
			matches, err := fileglob.Glob(pattern, append(opts, fileglob.MaybeRootFS)...)
			if err != nil {
				if errors.Is(err, os.ErrNotExist) {
					g.Err = 1
				} else {
					g.Err = 2
				}
			}
			if _, err := os.Stat(pattern); errors.Is(err, fs.ErrNotExist) {
				g.PatternMissing = true
			}
			g.HasMatchers = fileglob.ContainsMatchers(pattern)
			for _, m := range matches {
				h := wire.GlobHit{Path: m}
				if fi, err := os.Stat(m); err == nil && fi.Mode().IsDir() {
					h.IsDir = true
				}
				g.Hits = append(g.Hits, h)
				b.stat(m)
				b.stat(filepath.ToSlash(filepath.Clean(m)))
				b.link(m)
			}
			b.o.Globs = append(b.o.Globs, g)
		}
	}
	return b.o
}
