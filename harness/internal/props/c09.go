package props

import (
	"bytes"
	"fmt"
	"gopkg.in/yaml.v3"
	"os"
	"path/filepath"
	"regexp"
	"sort"
	"strconv"
	"strings"

	"github.com/goreleaser/nfpm/v2"
	"verif/harness/internal/report"
	"verif/harness/internal/rng"
	"verif/harness/internal/wire"
)

func init() { Registry["C09"] = runC09 }

// selectors each format can be configured with
var scriptSelectors = map[string][]string{
	"deb":       {"Scripts.PreInstall", "Scripts.PostInstall", "Scripts.PreRemove", "Scripts.PostRemove", "Deb.Scripts.Rules", "Deb.Scripts.Templates", "Deb.Scripts.Config"},
	"ipk":       {"Scripts.PreInstall", "Scripts.PostInstall", "Scripts.PreRemove", "Scripts.PostRemove"},
	"apk":       {"Scripts.PreInstall", "Scripts.PostInstall", "Scripts.PreRemove", "Scripts.PostRemove", "APK.Scripts.PreUpgrade", "APK.Scripts.PostUpgrade"},
	"archlinux": {"Scripts.PreInstall", "Scripts.PostInstall", "Scripts.PreRemove", "Scripts.PostRemove", "ArchLinux.Scripts.PreUpgrade", "ArchLinux.Scripts.PostUpgrade"},
	"rpm":       {"Scripts.PreInstall", "Scripts.PostInstall", "Scripts.PreRemove", "Scripts.PostRemove", "RPM.Scripts.PreTrans", "RPM.Scripts.PostTrans", "RPM.Scripts.Verify"},
}

func setScript(info *nfpm.Info, sel, path string) {
	switch sel {
	case "Scripts.PreInstall":
		info.Scripts.PreInstall = path
	case "Scripts.PostInstall":
		info.Scripts.PostInstall = path
	case "Scripts.PreRemove":
		info.Scripts.PreRemove = path
	case "Scripts.PostRemove":
		info.Scripts.PostRemove = path
	case "Deb.Scripts.Rules":
		info.Deb.Scripts.Rules = path
	case "Deb.Scripts.Templates":
		info.Deb.Scripts.Templates = path
	case "Deb.Scripts.Config":
		info.Deb.Scripts.Config = path
	case "APK.Scripts.PreUpgrade":
		info.APK.Scripts.PreUpgrade = path
	case "APK.Scripts.PostUpgrade":
		info.APK.Scripts.PostUpgrade = path
	case "ArchLinux.Scripts.PreUpgrade":
		info.ArchLinux.Scripts.PreUpgrade = path
	case "ArchLinux.Scripts.PostUpgrade":
		info.ArchLinux.Scripts.PostUpgrade = path
	case "RPM.Scripts.PreTrans":
		info.RPM.Scripts.PreTrans = path
	case "RPM.Scripts.PostTrans":
		info.RPM.Scripts.PostTrans = path
	case "RPM.Scripts.Verify":
		info.RPM.Scripts.Verify = path
	default:
		panic("unknown selector " + sel)
	}
}

type slotBody struct{ Slot, Body string }

var archFn = regexp.MustCompile(`(?m)^function ([a-z_]+)\(\) \{\n`)

// observedSlots extracts (slot, body) pairs from a decoded package.
func observedSlots(dec *Decoded) ([]slotBody, map[string]int64) {
	var res []slotBody
	modes := map[string]int64{}
	switch dec.Format {
	case "deb":
		for _, e := range dec.Deb.Control {
			n := strings.TrimPrefix(e.Name, "./")
			switch n {
			case "control", "md5sums", "conffiles", "triggers":
				continue
			}
			res = append(res, slotBody{n, string(e.Body)})
			modes[n] = e.Mode
		}
	case "ipk":
		for _, e := range dec.Ipk.Control {
			n := strings.TrimPrefix(e.Name, "./")
			switch n {
			case "control", "conffiles":
				continue
			}
			res = append(res, slotBody{n, string(e.Body)})
			modes[n] = e.Mode
		}
	case "apk":
		seg := dec.Apk.Segments[len(dec.Apk.Segments)-2]
		for _, e := range seg.Entries {
			if e.Name == ".PKGINFO" {
				continue
			}
			res = append(res, slotBody{e.Name, string(e.Body)})
			modes[e.Name] = e.Mode
		}
	case "archlinux":
		if !dec.Arch.HasInstall {
			return nil, modes
		}
		b := dec.Arch.Install
		idx := archFn.FindAllSubmatchIndex(b, -1)
		if len(idx) == 0 || idx[0][0] != 0 {
			return []slotBody{{"unparseable", string(b)}}, modes
		}
		for i, m := range idx {
			end := len(b)
			if i+1 < len(idx) {
				end = idx[i+1][0]
			}
			body := b[m[1]:end]
			if !bytes.HasSuffix(body, []byte("\n}\n\n")) {
				return []slotBody{{"unparseable", string(b)}}, modes
			}
			res = append(res, slotBody{string(b[m[2]:m[3]]), string(body[:len(body)-4])})
		}
	case "rpm":
		for _, tag := range []int{1023, 1024, 1025, 1026, 1079, 1151, 1152} {
			if t, ok := dec.Rpm.Hdr[tag]; ok && len(t.Strs) > 0 {
				res = append(res, slotBody{strconv.Itoa(tag), t.Strs[0]})
			}
		}
	}
	return res, modes
}

func encPairs(ps [][2]string) string {
	var b strings.Builder
	fmt.Fprintf(&b, "%d", len(ps))
	for _, p := range ps {
		fmt.Fprintf(&b, " %s %s", wire.H(p[0]), wire.H(p[1]))
	}
	return b.String()
}

func genBlob(r *rng.R, kind int, allowNul bool) []byte {
	n := 1 + r.Intn(200)
	b := make([]byte, n)
	for i := range b {
		switch kind {
		case 0: // shell-like text, trailing newline
			b[i] = "#!/bin/sh\necho $1 {}()\n"[r.Intn(23)]
		default: // binary, no trailing newline
			b[i] = byte(r.Intn(256))
			if !allowNul && b[i] == 0 {
				b[i] = 1
			}
		}
	}
	if kind == 0 {
		b[n-1] = '\n'
	} else if b[n-1] == '\n' {
		b[n-1] = 'x'
	}
	return b
}

func scriptCase(c *Ctx, fam *report.Family, f string, configured [][2]string, label string, dir string, base *PkgSpec) {
	scriptCaseRoute(c, fam, f, configured, label, dir, base, false)
}

// scriptCaseRoute: viaOverride = the scripts reach the packager the way a configuration with an override block hands
// them over – every second configured script is set in the override block of the format, the others at top level, and
// the effective settings come from Config.Get (a slot is populated iff its script is configured at either level).
func scriptCaseRoute(c *Ctx, fam *report.Family, f string, configured [][2]string, label string, dir string, base *PkgSpec, viaOverride bool) {
	paths := map[string]string{}
	onePath := strings.HasPrefix(label, "one-file-for-every-slot")
	for i, kv := range configured {
		p := filepath.Join(dir, fmt.Sprintf("script-%s-%d", f, i))
		if onePath {
			// every slot names the very same file (one maintenance script for install and upgrade is common)
			p = filepath.Join(dir, "script-"+f+"-shared")
		}
		if err := os.WriteFile(p, []byte(kv[1]), 0o644); err != nil {
			c.Rep.Note("write script: %v", err)
			return
		}
		// every second script is configured through a symbolic link to the script file (a common layout: scripts
		// kept in one place, linked per package); the slot must still hold the bytes of the script
		if i%2 == 1 {
			l := p + ".lnk"
			_ = os.Remove(l)
			if err := os.Symlink(p, l); err == nil {
				p = l
			}
		}
		paths[kv[0]] = p
	}
	s := *base
	s.Mutate = func(info *nfpm.Info) {
		for sel, p := range paths {
			setScript(info, sel, p)
		}
	}
	var data []byte
	var err error
	if viaOverride {
		top := *base
		top.Mutate = func(info *nfpm.Info) {
			for i, kv := range configured {
				if i%2 == 0 {
					setScript(info, kv[0], paths[kv[0]])
				}
			}
		}
		over := &nfpm.Info{}
		for i, kv := range configured {
			if i%2 == 1 {
				setScript(over, kv[0], paths[kv[0]])
			}
		}
		cfg := &nfpm.Config{Info: *top.Info(), Overrides: map[string]*nfpm.Overridables{f: &over.Overridables}}
		// … written out as a YAML document and read back with the strict parser, as a user's nfpm.yaml is
		if doc, merr := yaml.Marshal(cfg); merr == nil {
			if parsed, perr := nfpm.Parse(bytes.NewReader(doc)); perr == nil {
				cfg = &parsed
			} else {
				c.Rep.Note("c09 via-override: marshalled configuration does not parse: %v", perr)
			}
		}
		var gi *nfpm.Info
		if gi, err = cfg.Get(f); err == nil {
			data, err = BuildPkg(f, nfpm.WithDefaults(gi))
		}
	} else {
		data, err = BuildPkg(f, s.Info())
	}
	var sels []string
	for _, kv := range configured {
		sels = append(sels, kv[0])
	}
	sort.Strings(sels)
	in := map[string]any{"format": f, "configured": sels, "blobs": label}
	if viaOverride {
		var inBlock []string
		for i, kv := range configured {
			if i%2 == 1 {
				inBlock = append(inBlock, kv[0])
			}
		}
		in["set_in_the_override_block_of_the_format"] = inBlock
		label += "|via-override-block"
	}
	fam.Eval(f+"|"+strings.Join(sels, ",")+"|"+label, len(configured) > 0)
	fam.Count(fmt.Sprintf("%s:%d-scripts", f, len(configured)))
	if err != nil {
		c.Rep.Find(report.Finding{Property: "C09", Family: "scripts", Shape: f + ":build-error", What: "packaging with readable scripts failed: " + err.Error(), Input: in})
		return
	}
	dec, err := DecodePkg(f, data)
	if err != nil {
		// the scripts travel in the package's control data: a package whose control data an independent reader cannot
		// read to the end does not deliver them
		c.Rep.Find(report.Finding{Property: "C09", Family: "scripts", Shape: f + ":scripts-unreadable:" + label,
			What: "the package built with these scripts cannot be read back (the member that carries a script is cut short or malformed): " + err.Error(), Input: in})
		return
	}
	obs, modes := observedSlots(dec)
	var op [][2]string
	for _, o := range obs {
		op = append(op, [2]string{o.Slot, o.Body})
	}
	ans, err := c.D.Batch([]string{
		fmt.Sprintf("scriptslots %s %s", f, encPairs(configured)),
		fmt.Sprintf("c09check %s %s %s", f, encPairs(configured), encPairs(op)),
	})
	if err != nil {
		c.Rep.Note("driver: %v", err)
		return
	}
	// model vs implementation (as sorted lists)
	sort.Slice(op, func(i, j int) bool { return op[i][0] < op[j][0] })
	if got := encPairs(op); got != ans[0] {
		c.Rep.Disagree(report.Disagreement{Family: "scripts", What: "populated script slots: model (source tables) vs " + f + " package", Input: in, Model: ans[0], Impl: got})
	}
	if strings.HasPrefix(ans[1], "violated ") {
		cl := strings.TrimPrefix(ans[1], "violated ")
		first := strings.SplitN(strings.SplitN(cl, ";", 2)[0], ":", 2)[0]
		c.Rep.Find(report.Finding{Property: "C09", Family: "scripts", Shape: f + ":" + first + ":" + label, What: "script slots of the " + f + " package: " + cl, Input: in})
	}
	// modes of script members
	for slot, m := range modes {
		want := int64(0o755)
		if f == "deb" && slot == "templates" {
			want = 0o644
		}
		if m != want {
			c.Rep.Find(report.Finding{Property: "C09", Family: "scripts", Shape: f + ":script-mode", What: fmt.Sprintf("script member %s has mode %o, want %o", slot, m, want), Input: in})
		}
	}
	if f == "archlinux" {
		// .INSTALL iff scripts exist
		if dec.Arch.HasInstall != (len(configured) > 0) {
			c.Rep.Find(report.Finding{Property: "C09", Family: "scripts", Shape: "archlinux:install-iff", What: ".INSTALL presence does not match script configuration", Input: in})
		}
	}
	if len(fam.Samples) < 2 && len(configured) > 1 {
		fam.Sample(map[string]any{"input": in, "observed_slots": func() []string {
			var r []string
			for _, o := range obs {
				r = append(r, fmt.Sprintf("%s(%d bytes)", o.Slot, len(o.Body)))
			}
			return r
		}()})
	}
}

func runC09(c *Ctx) error {
	tree, err := MkTree(filepath.Join(c.Tmp, "src"), 0)
	if err != nil {
		return err
	}
	dir := filepath.Join(c.Tmp, "scripts")
	_ = os.MkdirAll(dir, 0o755)
	base := &PkgSpec{Raw: []wire.Content{{Src: filepath.Join(tree.Root, "bin/tool"), Dst: "/usr/bin/tool"}}, Umask: 0o022, MTime: 1700000000}
	fam := c.Rep.Family("scripts", "every subset of the configurable script slots of each format (exhaustive: 2^7 deb, 2^7 rpm, 2^6 apk, 2^6 archlinux, 2^4 ipk) with pairwise distinct random script bodies, every second one configured through a symbolic link to the script file (shell text; binary without trailing newline; with NUL except rpm), plus empty-file, NUL-in-rpm and bodies ending in NUL bytes across a 512-byte boundary; every subset of two and more once again with every second script set in the format's override block and the effective settings taken from Config.Get; slots read back from control members / rpm tags / .INSTALL; non-trivial = at least one script configured")
	fam.Exhaustive = true
	r := c.R.Fork("c09")
	rounds := c.N(1, 25)
	for _, f := range Formats {
		sels := scriptSelectors[f]
		for round := 0; round < rounds; round++ {
			for mask := 0; mask < 1<<len(sels); mask++ {
				var conf [][2]string
				kind := (mask + round) % 2
				for i, sel := range sels {
					if mask&(1<<i) != 0 {
						conf = append(conf, [2]string{sel, string(genBlob(r, kind, f != "rpm"))})
					}
				}
				scriptCase(c, fam, f, conf, []string{"text", "binary"}[kind], dir, base)
				// the same subset split between the top level and the format's override block (subsets of two and more)
				if round == 0 && len(conf) >= 2 {
					scriptCaseRoute(c, fam, f, conf, []string{"text", "binary"}[kind], dir, base, true)
				}
			}
		}
		// edge cases: empty script file, and NUL bytes in rpm
		scriptCase(c, fam, f, [][2]string{{"Scripts.PreInstall", ""}}, "empty-file", dir, base)
		// one script file configured for every slot, and for every pair of slots
		{
			body := "#!/bin/sh\n# shared by every hook\necho \"$0 $@\"\n"
			var all [][2]string
			for _, sel := range sels {
				all = append(all, [2]string{sel, body})
			}
			scriptCase(c, fam, f, all, "one-file-for-every-slot", dir, base)
			for i := range sels {
				for j := i + 1; j < len(sels); j++ {
					scriptCase(c, fam, f, [][2]string{{sels[i], body}, {sels[j], body}}, "one-file-for-every-slot:pair", dir, base)
				}
			}
		}
		// a configured script that cannot be read (its path is a directory), next to readable ones: the slots are populated
		// exactly when configured, so a package must not come out of this without the script – an error has to
		for si, sel := range sels {
			unread := filepath.Join(dir, fmt.Sprintf("unreadable-%s-%d.d", f, si))
			_ = os.MkdirAll(unread, 0o755)
			sp := *base
			sp.Mutate = func(info *nfpm.Info) {
				for sj, other := range sels {
					if sj == si {
						setScript(info, other, unread)
					} else if sj == (si+1)%len(sels) {
						okp := filepath.Join(dir, fmt.Sprintf("readable-%s-%d", f, sj))
						_ = os.WriteFile(okp, []byte("#!/bin/sh\necho readable\n"), 0o644)
						setScript(info, other, okp)
					}
				}
			}
			_, berr := BuildPkg(f, sp.Info())
			fam.Eval(fmt.Sprintf("%s|unreadable|%s", f, sel), true)
			if berr == nil {
				c.Rep.Find(report.Finding{Property: "C09", Family: "scripts", Shape: f + ":configured-script-missing-without-error",
					What:  "the script configured for " + sel + " cannot be read (its path is a directory); the package is built without an error, so a configured slot is empty or missing",
					Input: map[string]any{"format": f, "configured": sel, "path": "a directory"}})
			}
		}
		// bodies that end in NUL bytes up to and across a 512-byte block boundary (a tar stream ends in zero blocks: the
		// body's own zeros are not part of that marker), alone in each slot and in all slots at once
		if f != "rpm" {
			tails := []string{"#!/bin/sh\n" + strings.Repeat("\x00", 502) + "\x00", "#!/bin/sh\n" + strings.Repeat("x", 502) + strings.Repeat("\x00", 512), strings.Repeat("\x00", 1024)}
			for ti, body := range tails {
				var all [][2]string
				for _, sel := range sels {
					scriptCase(c, fam, f, [][2]string{{sel, body}}, fmt.Sprintf("nul-tail-%d", ti), dir, base)
					all = append(all, [2]string{sel, body + strings.Repeat("y", len(all)) + strings.Repeat("\x00", 512-len(all))})
				}
				scriptCase(c, fam, f, all, fmt.Sprintf("nul-tail-all-slots-%d", ti), dir, base)
			}
		}
		if f == "rpm" {
			scriptCase(c, fam, f, [][2]string{{"Scripts.PostRemove", "a\x00b"}}, "nul-byte", dir, base)
		}
	}
	return nil
}
