// Package props holds, per property, the correspondence families (model vs
// implementation) and the search for failing inputs on the implementation.
package props

import (
	"errors"
	"fmt"
	"io/fs"
	"os"
	"sort"
	"strings"
	"time"

	"github.com/goreleaser/nfpm/v2/files"
	"verif/harness/internal/model"
	"verif/harness/internal/report"
	"verif/harness/internal/rng"
	"verif/harness/internal/wire"
)

type Ctx struct {
	Prop   string
	Tier   string
	Seed   uint64
	R      *rng.R
	D      *model.Driver
	Rep    *report.Report
	Tmp    string // scratch directory, removed by main
	Repo   string
	Replay string // non-empty: replay file to re-run instead of generating
}

func (c *Ctx) Thorough() bool { return c.Tier == "thorough" }

// N picks a count by tier.
func (c *Ctx) N(quick, thorough int) int {
	if c.Thorough() {
		return thorough
	}
	return quick
}

type Fn func(*Ctx) error

var Registry = map[string]Fn{}

func Names() []string {
	var ns []string
	for k := range Registry {
		ns = append(ns, k)
	}
	sort.Strings(ns)
	return ns
}

// ---- helpers shared by several properties ----

func unixOrZero(t time.Time) int64 {
	if t.IsZero() {
		return wire.ZeroTime
	}
	return t.Unix()
}

func timeOf(u int64) time.Time {
	if u == wire.ZeroTime {
		return time.Time{}
	}
	return time.Unix(u, 0).UTC()
}

// toReal converts a wire content to an nfpm content (fresh pointers).
func toReal(c wire.Content) *files.Content {
	rc := &files.Content{Source: c.Src, Destination: c.Dst, Type: c.Type, Packager: c.Packager}
	if c.Info != nil {
		rc.FileInfo = &files.ContentFileInfo{Owner: c.Info.Owner, Group: c.Info.Group,
			Mode: fs.FileMode(c.Info.Mode), MTime: timeOf(c.Info.MTime), Size: c.Info.Size}
	}
	return rc
}

func fromReal(rc *files.Content) wire.Content {
	c := wire.Content{Src: rc.Source, Dst: rc.Destination, Type: rc.Type, Packager: rc.Packager}
	if rc.FileInfo != nil {
		c.Info = &wire.FileInfo{Owner: rc.FileInfo.Owner, Group: rc.FileInfo.Group,
			Mode: uint32(rc.FileInfo.Mode), MTime: unixOrZero(rc.FileInfo.MTime), Size: rc.FileInfo.Size}
	}
	return c
}

// planErrClass maps an error of files.PrepareForPackager to the model's closed enum.  Typed errors are recognised by
// type; the remaining classes only by the wording of today's messages, and an error whose wording is not recognised
// is "other": it still counts as an error wherever the model or the spec expects one (see samePlan).
func planErrClass(err error) string {
	switch {
	case err == nil:
		return ""
	case errors.Is(err, files.ErrContentCollision):
		return "collision"
	case planErrChainHas(err, "ErrGlobNoMatch") || strings.Contains(err.Error(), "no matching files"):
		return "glob-no-match"
	case strings.Contains(err.Error(), "invalid content type"):
		return "invalid-type"
	case strings.Contains(err.Error(), "add tree:"):
		return "walk-err"
	case errors.Is(err, os.ErrNotExist):
		return "not-exist"
	case strings.Contains(err.Error(), "glob failed"):
		return "glob-failed"
	case strings.Contains(err.Error(), "Rel:"):
		return "rel-err"
	}
	return "other"
}

func planErrChainHas(err error, typeName string) bool {
	for e := err; e != nil; e = errors.Unwrap(e) {
		if strings.HasSuffix(fmt.Sprintf("%T", e), typeName) {
			return true
		}
	}
	return false
}

// samePlan compares a model plan with an implementation plan as rendered by showPlan.  Error classes that only the
// wording of a message tells apart are not held against the implementation: a missing source is one class whether
// it is met by the tree walk or by the glob, and an error the harness cannot name agrees with any error.
func samePlan(model, impl string) bool {
	canon := func(s string) string {
		switch s {
		case "error:walk-err", "error:not-exist":
			return "error:source-missing"
		}
		return s
	}
	m, i := canon(model), canon(impl)
	if m == i {
		return true
	}
	return i == "error:other" && strings.HasPrefix(m, "error:") && m != "error:collision"
}

// realPlan runs the real files.PrepareForPackager on fresh copies.
func realPlan(cfg wire.PlanCfg, raw []wire.Content) ([]wire.Content, string) {
	var in files.Contents
	for _, c := range raw {
		in = append(in, toReal(c))
	}
	out, err := files.PrepareForPackager(in, fs.FileMode(cfg.Umask), cfg.Packager, cfg.NoGlob, timeOf(cfg.MTime))
	if err != nil {
		return nil, planErrClass(err)
	}
	res := make([]wire.Content, len(out))
	for i, c := range out {
		res[i] = fromReal(c)
	}
	return res, ""
}

func encResult(cs []wire.Content, errClass string) string {
	if errClass != "" {
		return "err " + errClass
	}
	var b strings.Builder
	fmt.Fprintf(&b, "ok %d", len(cs))
	for _, c := range cs {
		fi := c.Info
		has := "1"
		if fi == nil {
			fi = &wire.FileInfo{MTime: wire.ZeroTime}
			has = "0"
		}
		fmt.Fprintf(&b, " %s %s %s %s %s %s %s %d %d %d", wire.H(c.Src), wire.H(c.Dst), wire.H(c.Type), wire.H(c.Packager), has,
			wire.H(fi.Owner), wire.H(fi.Group), fi.Mode, fi.MTime, fi.Size)
	}
	return b.String()
}

func showPlan(cs []wire.Content, errClass string) string {
	if errClass != "" {
		return "error:" + errClass
	}
	parts := make([]string, len(cs))
	for i, c := range cs {
		parts[i] = c.String()
	}
	return "[" + strings.Join(parts, " ") + "]"
}

func contentsToAny(cs []wire.Content) []any {
	res := make([]any, len(cs))
	for i, c := range cs {
		m := map[string]any{"src": c.Src, "dst": c.Dst, "type": c.Type, "packager": c.Packager}
		if c.Info != nil {
			m["file_info"] = map[string]any{"owner": c.Info.Owner, "group": c.Info.Group, "mode": fmt.Sprintf("%o", c.Info.Mode), "mtime": c.Info.MTime, "size": c.Info.Size}
		}
		res[i] = m
	}
	return res
}
