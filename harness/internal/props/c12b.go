package props

import (
	"bytes"
	"crypto/sha256"
	"fmt"
	"os"
	"path/filepath"
	"runtime"
	"strings"
	"sync"
	"time"

	"github.com/goreleaser/nfpm/v2"
	"verif/harness/internal/report"
)

// ---- signed packages built concurrently ----
//
// A signature is not reproducible byte for byte (creation time, salt), so what a concurrent signed build is compared
// on is what the property lets a user rely on: whether packaging succeeded, and WHO signed – the issuer key id of
// the signature the package carries must be the one the sequential build of the same settings carries.

type c12SignedCfg struct {
	Label, KeyFile, Pass, KeyID string
}

func c12SignedYAML(tree *SrcTree, k c12SignedCfg, keyDir, method string) string {
	var b strings.Builder
	fmt.Fprintf(&b, "name: signed\narch: amd64\nplatform: linux\nversion: 1.2.3\nmaintainer: Verif <verif@example.com>\ndescription: signed concurrently\nmtime: 2023-11-14T22:13:20Z\n")
	fmt.Fprintf(&b, "contents:\n  - src: %s\n    dst: /usr/bin/tool\n", filepath.Join(tree.Root, "bin/tool"))
	fmt.Fprintf(&b, "deb:\n  signature:\n    method: %s\n    key_file: %s\n", method, filepath.Join(keyDir, k.KeyFile))
	if k.KeyID != "" {
		fmt.Fprintf(&b, "    key_id: %s\n", k.KeyID)
	}
	fmt.Fprintf(&b, "rpm:\n  signature:\n    key_file: %s\n", filepath.Join(keyDir, k.KeyFile))
	if k.KeyID != "" {
		fmt.Fprintf(&b, "    key_id: %s\n", k.KeyID)
	}
	return b.String()
}

// c12SignedView: "error text" or "issuer:<hex>" of the signature(s) in the package.
func c12SignedView(f string, res isoResult) string {
	if res.Err != "" {
		return "error: " + res.Err
	}
	dec, err := DecodePkg(f, res.Data)
	if err != nil {
		return "undecodable: " + err.Error()
	}
	switch f {
	case "deb":
		var out []string
		for _, m := range dec.Deb.Members {
			if strings.HasPrefix(m.Name, "_gpg") {
				id, err := c10issuer(m.Body, true)
				if err != nil {
					out = append(out, m.Name+":unreadable:"+err.Error())
				} else {
					out = append(out, fmt.Sprintf("%s:issuer:%016x", m.Name, id))
				}
			}
		}
		if len(out) == 0 {
			return "no signature member"
		}
		return strings.Join(out, ",")
	case "rpm":
		var out []string
		for _, tag := range []int{c10RpmSigHeaderOnly, c10RpmSigHeaderPayload} {
			e, ok := dec.Rpm.Sig[tag]
			if !ok {
				out = append(out, fmt.Sprintf("tag%d:absent", tag))
				continue
			}
			id, err := c10issuer(e.Bin, false)
			if err != nil {
				out = append(out, fmt.Sprintf("tag%d:unreadable:%v", tag, err))
			} else {
				out = append(out, fmt.Sprintf("tag%d:issuer:%016x", tag, id))
			}
		}
		return strings.Join(out, ",")
	}
	return "?"
}

func c12SignedParse(y, pass string) (*nfpm.Config, error) {
	cfg, err := isoParse(y)
	if err != nil {
		return nil, err
	}
	cfg.Info.Deb.Signature.KeyPassphrase = pass
	cfg.Info.RPM.Signature.KeyPassphrase = pass
	return cfg, nil
}

func c12Signed(c *Ctx, fam *report.Family, tree *SrcTree, rounds int) {
	keyDir := filepath.Join(c.Repo, "internal", "sign", "testdata")
	if c.Repo == "" {
		keyDir = "/repo/internal/sign/testdata"
	}
	keys := []c12SignedCfg{
		{"protected-primary+keyid", "privkey.asc", "hunter2", "bc8acdd415bd80b3"},
		{"subkey-only+keyid", "privkey_unprotected_subkey_only.asc", "", "9890904dfb2ec88a"},
		{"unprotected-no-keyid", "privkey_unprotected.gpg", "", ""},
	}
	type job struct {
		key    c12SignedCfg
		y, fmt string
		want   string
	}
	var jobs []job
	for i, k := range keys {
		method := []string{"debsign", "debsign", "dpkg-sig"}[i] // dpkg-sig cannot use a subkey-only key file (known finding of C10)
		y := c12SignedYAML(tree, k, keyDir, method)
		cfg, err := c12SignedParse(y, k.Pass)
		if err != nil {
			c.Rep.Note("C12 signed workload: configuration does not parse: %v", err)
			return
		}
		for _, f := range []string{"deb", "rpm"} {
			want := c12SignedView(f, isoPackage(cfg, f))
			if strings.HasPrefix(want, "error") || strings.HasPrefix(want, "undecodable") {
				c.Rep.Note("C12 signed workload: sequential %s build with %s: %s (not compared)", f, k.Label, want)
				continue
			}
			jobs = append(jobs, job{k, y, f, want})
		}
	}
	if len(jobs) == 0 {
		return
	}
	const workers = 8
	runtime.GOMAXPROCS(16)
	for round := 0; round < rounds; round++ {
		got := make([]string, workers)
		picked := make([]job, workers)
		var wg sync.WaitGroup
		start := make(chan struct{})
		for g := 0; g < workers; g++ {
			picked[g] = jobs[(g+round*3)%len(jobs)]
			wg.Add(1)
			go func(g int) {
				defer wg.Done()
				<-start
				j := picked[g]
				cfg, err := c12SignedParse(j.y, j.key.Pass)
				if err != nil {
					got[g] = "parse: " + err.Error()
					return
				}
				got[g] = c12SignedView(j.fmt, isoPackage(cfg, j.fmt))
			}(g)
		}
		close(start)
		wg.Wait()
		fam.Distribution["goroutine-launches"] += workers
		for g := 0; g < workers; g++ {
			j := picked[g]
			fam.Eval(fmt.Sprintf("signed|%s|%s|%d|%d", j.key.Label, j.fmt, round, g), true)
			fam.Count("signed:" + j.fmt + ":" + j.key.Label)
			if got[g] != j.want {
				c.Rep.Find(report.Finding{Property: "C12", Family: fam.Name, Shape: "concurrent-signed-result-differs:" + j.fmt,
					What: fmt.Sprintf("the signed %s package (%s) built while %d other signed packages with other keys / key ids were being built: %s; the sequential build of the same settings: %s",
						j.fmt, j.key.Label, workers-1, got[g], j.want),
					Input: map[string]any{"yaml": j.y, "passphrase": j.key.Pass, "variant": "signed packages with different keys and key ids, 8 goroutines, each parsing its own configuration", "round": round}})
			}
		}
	}
}

// ---- payloads larger than any block a parallel compressor works in ----
//
// The configurations of the main workload carry small files; a compressor that splits its input into blocks and
// compresses them in parallel (pgzip for apk) sees a single block there.  Here every format packages one 3 MiB file,
// sequentially and from 8 goroutines, under a pinned GOMAXPROCS.

func c12LargePayload(c *Ctx, fam *report.Family, rounds int) {
	dir := filepath.Join(c.Tmp, "large-"+fam.Name)
	if err := os.MkdirAll(dir, 0o755); err != nil {
		return
	}
	var data bytes.Buffer
	for i := 0; data.Len() < 3<<20; i++ {
		h := sha256.Sum256([]byte(fmt.Sprintf("block %d", i)))
		fmt.Fprintf(&data, "line %08d %x the quick brown fox jumps over the lazy dog\n", i, h[:12])
	}
	big := filepath.Join(dir, "big.bin")
	if err := os.WriteFile(big, data.Bytes(), 0o644); err != nil {
		return
	}
	y := fmt.Sprintf("name: large\narch: amd64\nplatform: linux\nversion: 1.0.0\nmaintainer: Verif <verif@example.com>\ndescription: one large file\nmtime: 2023-11-14T22:13:20Z\ncontents:\n  - src: %s\n    dst: /usr/share/large/big.bin\n", big)
	for _, procs := range []int{4, 2} {
		runtime.GOMAXPROCS(procs)
		seqCfg, err := isoParse(y)
		if err != nil {
			return
		}
		seq := map[string]isoResult{}
		for _, f := range Formats {
			seq[f] = isoPackage(seqCfg, f)
		}
		const workers = 8
		// every second goroutine builds the apk (the format with a block-parallel compressor), the others rotate
		pick := func(g, round int) string {
			if g%2 == 0 {
				return "apk"
			}
			return Formats[(g/2+round)%len(Formats)]
		}
		for round := 0; round < rounds; round++ {
			res := make([]isoResult, workers)
			var wg sync.WaitGroup
			start := make(chan struct{})
			for g := 0; g < workers; g++ {
				wg.Add(1)
				go func(g int) {
					defer wg.Done()
					<-start
					cfg, err := isoParse(y)
					if err != nil {
						res[g] = isoResult{Err: "parse: " + err.Error()}
						return
					}
					res[g] = isoPackage(cfg, pick(g, round))
				}(g)
			}
			close(start)
			wg.Wait()
			fam.Distribution["goroutine-launches"] += workers
			for g := 0; g < workers; g++ {
				f := pick(g, round)
				fam.Eval(fmt.Sprintf("large|%d|%s|%d|%d", procs, f, round, g), true)
				fam.Count("large-payload:" + f)
				if !res[g].equal(seq[f]) {
					c.Rep.Find(report.Finding{Property: "C12", Family: fam.Name, Shape: "concurrent-result-differs:" + f + ":large-payload",
						What:  fmt.Sprintf("the %s package of one 3 MiB file built in goroutine %d of %d (GOMAXPROCS=%d): %s", f, g, workers, procs, isoDescribeDiff(res[g], seq[f])),
						Input: map[string]any{"yaml": y, "payload": "3 MiB of generated text lines at " + big, "variant": "8 goroutines, each parsing its own configuration, all five formats overlapping", "gomaxprocs": procs, "round": round}})
				}
			}
		}
	}
}

// ---- the command, run as concurrent processes into one directory ----
//
// A release script builds all formats at once: five `nfpm package` processes, one per format, the same configuration,
// the same output directory.  Every file must be the file the same command writes when it runs alone.

func c12ConcurrentCLI(c *Ctx) {
	fam := c.Rep.Family("concurrent-command-processes", "the built `nfpm package` run as five concurrent processes (one per format) on one configuration into one directory, 3 rounds x {explicit targets out/pkg.<ext>, directory target with conventional names; arch arm64, where the conventional deb and ipk names differ in the extension only}: every file byte-compared with the file of the same command run alone (mtime fixed); non-trivial = always")
	if c.Repo == "" {
		return
	}
	root := filepath.Join(c.Tmp, "c12cli")
	_ = os.MkdirAll(root, 0o755)
	bin, err := BuildNfpmBinary(c.Repo, root)
	if err != nil {
		c.Rep.Note("concurrent-command-processes: %v", err)
		return
	}
	tool := filepath.Join(root, "tool.sh")
	_ = os.WriteFile(tool, []byte("#!/bin/sh\necho tool\n"), 0o755)
	y := "name: verifpkg\narch: arm64\nplatform: linux\nversion: 1.2.3\nmaintainer: Verif <verif@example.com>\ndescription: concurrent processes\nmtime: 2023-11-14T22:13:20Z\nrpm:\n  buildhost: buildhost.example\ncontents:\n- src: " + tool + "\n  dst: /usr/bin/tool\n"
	mk := func(name string) string {
		d := filepath.Join(root, name)
		_ = os.MkdirAll(filepath.Join(d, "out"), 0o755)
		_ = os.WriteFile(filepath.Join(d, "nfpm.yaml"), []byte(y), 0o644)
		return d
	}
	listing := func(d string) map[string][]byte {
		res := map[string][]byte{}
		es, _ := os.ReadDir(filepath.Join(d, "out"))
		for _, e := range es {
			b, _ := os.ReadFile(filepath.Join(d, "out", e.Name()))
			res[e.Name()] = b
		}
		return res
	}
	for _, how := range []string{"explicit-targets", "directory-target"} {
		args := func(f string) []string {
			if how == "explicit-targets" {
				return []string{"-p", f, "-t", filepath.Join("out", "pkg"+cliExt[f])}
			}
			return []string{"-p", f, "-t", "out"}
		}
		seq := mk("seq-" + how)
		for _, f := range Formats {
			if code, out := runNfpm(bin, seq, args(f)...); code != 0 {
				c.Rep.Note("concurrent-command-processes: sequential %s fails: %s", f, cliCause(out))
			}
		}
		want := listing(seq)
		for round := 0; round < 3; round++ {
			d := mk(fmt.Sprintf("par-%s-%d", how, round))
			var wg sync.WaitGroup
			codes := make([]int, len(Formats))
			outs := make([]string, len(Formats))
			start := make(chan struct{})
			for i, f := range Formats {
				wg.Add(1)
				go func(i int, f string) {
					defer wg.Done()
					<-start
					codes[i], outs[i] = runNfpm(bin, d, args(f)...)
				}(i, f)
			}
			close(start)
			wg.Wait()
			got := listing(d)
			fam.Eval(fmt.Sprintf("%s|%d", how, round), true)
			in := map[string]any{"config": y, "how": how, "round": round, "commands": "nfpm package -p <format> " + strings.Join(args("<format>")[2:], " ") + " x 5 at once"}
			for i, f := range Formats {
				if codes[i] != 0 {
					c.Rep.Find(report.Finding{Property: "C12", Family: fam.Name, Shape: "concurrent-processes:command-fails:" + f,
						What: fmt.Sprintf("`nfpm package %s` exits %d when the other four formats are packaged into the same directory at the same time: %s (alone it succeeds)", strings.Join(args(f), " "), codes[i], cliCause(outs[i])), Input: in})
				}
			}
			for name, w := range want {
				if g, ok := got[name]; !ok {
					c.Rep.Find(report.Finding{Property: "C12", Family: fam.Name, Shape: "concurrent-processes:file-missing",
						What: fmt.Sprintf("%s is written when the five commands run one after the other and missing when they run at once (files present: %d of %d)", name, len(got), len(want)), Input: in})
				} else if !bytes.Equal(g, w) {
					c.Rep.Find(report.Finding{Property: "C12", Family: fam.Name, Shape: "concurrent-processes:file-differs",
						What: fmt.Sprintf("%s written by five concurrent commands differs from the file of the sequential run: %s", name, diffWhat(w, g)), Input: in})
				}
			}
			for name := range got {
				if _, ok := want[name]; !ok {
					c.Rep.Find(report.Finding{Property: "C12", Family: fam.Name, Shape: "concurrent-processes:stray-file",
						What: fmt.Sprintf("the concurrent run leaves %s in the output directory, the sequential run does not", name), Input: in})
				}
			}
		}
	}
}

// c12ManyOfOneFormat builds 4 x NumCPU (at least 48) packages of each format at the same moment, each from its own
// parsed configuration, and compares every one with the sequential result. A run in which the builds of a format do not
// come back within two minutes is a finding (the goroutines are left behind).
func c12ManyOfOneFormat(c *Ctx, fam *report.Family, tree *SrcTree, scripts string) {
	y := isoPlainConfigYAML(tree, scripts)
	n := 4 * runtime.NumCPU()
	if n < 48 {
		n = 48
	}
	prev := runtime.GOMAXPROCS(0)
	defer runtime.GOMAXPROCS(prev)
	runtime.GOMAXPROCS(4)
	for _, f := range Formats {
		seqCfg, err := isoParse(y)
		if err != nil {
			c.Rep.Note("many-of-one-format: %v", err)
			return
		}
		want := isoPackage(seqCfg, f)
		res := make([]isoResult, n)
		done := make(chan int, n)
		start := make(chan struct{})
		for g := 0; g < n; g++ {
			go func(g int) {
				<-start
				if cfg, err := isoParse(y); err == nil {
					res[g] = isoPackage(cfg, f)
				} else {
					res[g] = isoResult{Err: "parse: " + err.Error()}
				}
				done <- g
			}(g)
		}
		close(start)
		fam.Distribution["goroutine-launches"] += n
		finished := 0
		timeout := time.After(2 * time.Minute)
	wait:
		for finished < n {
			select {
			case <-done:
				finished++
			case <-timeout:
				break wait
			}
		}
		fam.Eval("many-of-one-format|"+f, true)
		in := map[string]any{"yaml": y, "format": f, "concurrent_packagings": n, "gomaxprocs": 4}
		if finished < n {
			c.Rep.Find(report.Finding{Property: "C12", Family: fam.Name, Shape: "concurrent-packagings-never-finish:" + f,
				What:  fmt.Sprintf("%d %s packagings started at once: %d came back within two minutes, the rest wait for each other (sequentially the package builds in milliseconds)", n, f, finished),
				Input: in})
			continue
		}
		for g := 0; g < n; g++ {
			if !res[g].equal(want) {
				c.Rep.Find(report.Finding{Property: "C12", Family: fam.Name, Shape: "concurrent-result-differs:" + f + ":many-of-one-format",
					What:  fmt.Sprintf("the %s package built next to %d others of the same format: %s", f, n-1, isoDescribeDiff(res[g], want)),
					Input: in})
				break
			}
		}
	}
}
