package props

import (
	"fmt"
	"os"
	"path/filepath"
	"strings"

	"github.com/goreleaser/nfpm/v2"
	"github.com/goreleaser/nfpm/v2/files"
	"verif/harness/internal/fsoracle"
	"verif/harness/internal/report"
	"verif/harness/internal/rng"
	"verif/harness/internal/wire"
)

func init() { Registry["C05"] = runC05 }

// enumStrings enumerates all strings over alphabet up to length n.
func enumStrings(alphabet string, n int) []string {
	res := []string{""}
	prev := []string{""}
	for l := 1; l <= n; l++ {
		var cur []string
		for _, p := range prev {
			for i := 0; i < len(alphabet); i++ {
				cur = append(cur, p+string(alphabet[i]))
			}
		}
		res = append(res, cur...)
		prev = cur
	}
	return res
}

type pathFn struct {
	op   string
	impl func(string) string
}

func runC05(c *Ctx) error {
	if err := c05Path(c); err != nil {
		return err
	}
	if err := c05Spelling(c); err != nil {
		return err
	}
	tree, err := MkTree(filepath.Join(c.Tmp, "src"), 0)
	if err != nil {
		return err
	}
	if err := c05Small(c, tree); err != nil {
		return err
	}
	if err := c05DebChangelogSite(c, tree); err != nil {
		return err
	}
	if err := c05TreeOfCwd(c); err != nil {
		return err
	}
	c05DeclaredDirectories(c, tree)
	c05PayloadOfThePlan(c, tree)
	c05SameBaseNames(c, tree)
	c05SourcesChangeBetweenPlans(c, tree)
	c05ConfigRoute(c, tree)
	return c05Random(c, tree)
}

// c05DebChangelogSite: planning as it happens inside deb.Package, where the generated changelog is one more entry
// of the plan (type "debian changelog" at /usr/share/doc/<name>/changelog.Debian.gz).  What the model of planning
// says about the configured contents plus that entry – a plan, or a collision – must be what Package does: an entry
// of the user at the changelog's place must not be accepted silently, nor may the changelog displace it.
func c05DebChangelogSite(c *Ctx, t *SrcTree) error {
	fam := c.Rep.Family("deb-changelog-site", "exhaustive: deb.Package with a changelog configured and one user entry {file, config, config|noreplace, symlink, dir, doc (rpm only), ghost (rpm only), file tagged packager rpm, file tagged packager deb} at {the changelog's destination, the same with a trailing slash, an unclean spelling of it, its parent directory, an unrelated path} plus the same without a changelog: Package fails with a collision exactly when the model of planning (files.PrepareForPackager over the contents plus the changelog entry) reports one, and when it succeeds the data tar holds exactly one member of that name; non-trivial = changelog configured")
	fam.Exhaustive = true
	clog := filepath.Join(c.Tmp, "c05-changelog.yaml")
	if err := os.WriteFile(clog, []byte(c34Changelog), 0o644); err != nil {
		return err
	}
	name := "verifpkg"
	dst := "/usr/share/doc/" + name + "/changelog.Debian.gz"
	type ent struct{ typ, packager string }
	ents := []ent{{"", ""}, {"config", ""}, {"config|noreplace", ""}, {"symlink", ""}, {"dir", ""}, {"doc", ""}, {"ghost", ""}, {"", "rpm"}, {"", "deb"}}
	places := []string{dst, dst + "/", "/usr/share//doc/./" + name + "/changelog.Debian.gz", "/usr/share/doc/" + name, "/opt/unrelated"}
	for _, withLog := range []bool{true, false} {
		for _, e := range ents {
			for _, place := range places {
				raw := []wire.Content{{Src: t.Root + "/bin/tool", Dst: "/usr/bin/tool"}, {Src: t.Root + "/etc/app.conf", Dst: place, Type: e.typ, Packager: e.packager}}
				if e.typ == "symlink" {
					raw[1].Src = "/usr/bin/tool"
				}
				if e.typ == "dir" || e.typ == "ghost" {
					raw[1].Src = ""
				}
				spec := &PkgSpec{Raw: raw, Umask: 0o022, MTime: 1700000000, Mutate: func(info *nfpm.Info) {
					if withLog {
						info.Changelog = clog
					}
				}}
				data, berr := BuildPkg("deb", spec.Info())
				// the model: plan of the contents plus the changelog entry
				mraw := append([]wire.Content{}, raw...)
				if withLog {
					mraw = append(mraw, wire.Content{Dst: dst, Type: "debian changelog"})
				}
				cfg := wire.PlanCfg{Packager: "deb", Umask: 0o022, MTime: 1700000000}
				a, err := c.D.Ask(wire.PlanReq(cfg, mraw, fsoracle.Build(raw, false)))
				if err != nil {
					return err
				}
				mcs, merr, perr := wire.ParseContents(a)
				if perr != nil {
					return fmt.Errorf("deb-changelog-site: model answer: %v", perr)
				}
				key := fmt.Sprintf("%v|%s|%s|%s", withLog, e.typ, e.packager, place)
				fam.Eval(key, withLog)
				in := map[string]any{"changelog": withLog, "entry_type": e.typ, "entry_packager": e.packager, "entry_destination": place}
				switch {
				case merr != "" && berr == nil:
					fam.Count("model-collision:package-built")
					c.Rep.Find(report.Finding{Property: "C05", Family: "deb-changelog-site", Shape: "deb:changelog-site:conflicting-entries-accepted-silently",
						What:  fmt.Sprintf("the contents plus the generated changelog entry conflict (model of planning: %s), deb.Package nevertheless wrote a package of %d bytes", merr, len(data)),
						Input: in})
				case merr == "" && berr != nil:
					fam.Count("model-plan:package-failed")
					c.Rep.Disagree(report.Disagreement{Family: "deb-changelog-site", What: "deb.Package fails where the model of planning yields a plan", Input: in, Model: showPlan(mcs, merr), Impl: berr.Error()})
				case merr != "":
					fam.Count("collision-reported")
				default:
					fam.Count("built")
					dec, derr := DecodePkg("deb", data)
					if derr != nil {
						c.Rep.Note("deb-changelog-site: decode: %v", derr)
						continue
					}
					n := 0
					for _, m := range dec.Members {
						if strings.TrimSuffix(m.Name, "/") == "."+dst {
							n++
						}
					}
					want := 0
					for _, mc := range mcs {
						if strings.TrimSuffix(mc.Dst, "/") == dst {
							want++
						}
					}
					if n != want {
						c.Rep.Find(report.Finding{Property: "C05", Family: "deb-changelog-site", Shape: "deb:changelog-site:member-count-at-changelog-destination",
							What:  fmt.Sprintf("the plan holds %d entries at %s, the data tar holds %d members of that name", want, dst, n),
							Input: in})
					}
				}
			}
		}
	}
	return nil
}

// c05TreeOfCwd: a tree (and a glob) whose source is the working directory itself, spelled ".", "./", "./." – with
// entries whose names begin with a dot, or with two dots, at its top level: the tree is replicated name for name.
func c05TreeOfCwd(c *Ctx) error {
	fam := c.Rep.Family("tree-of-working-directory", "exhaustive: the working directory set to a directory holding .env, ..data, .config/settings.ini, plain.txt, sub/.keep; content {type tree | glob '*' | glob '.*'} with source {., ./, ./., sub/..} and destination /opt/app x 5 packagers: files.PrepareForPackager vs the model of planning (every entry replicated under its own name, leading dots included) and the planning spec; non-trivial = always")
	fam.Exhaustive = true
	dir := filepath.Join(c.Tmp, "cwd-tree")
	for _, f := range []string{".env", "..data", ".config/settings.ini", "plain.txt", "sub/.keep"} {
		p := filepath.Join(dir, f)
		if err := os.MkdirAll(filepath.Dir(p), 0o755); err != nil {
			return err
		}
		if err := os.WriteFile(p, []byte(f), 0o644); err != nil {
			return err
		}
	}
	wd, err := os.Getwd()
	if err != nil {
		return err
	}
	if err := os.Chdir(dir); err != nil {
		return err
	}
	defer os.Chdir(wd) // nolint: errcheck
	for _, pk := range Formats {
		for _, src := range []string{".", "./", "./.", "sub/.."} {
			planCase(c, fam, "tree-of-working-directory", wire.PlanCfg{Packager: pk, Umask: 0o022, MTime: 1700000000},
				[]wire.Content{{Src: src, Dst: "/opt/app", Type: "tree"}}, false)
		}
		for _, src := range []string{"*", ".*", "./.*", "./*"} {
			planCase(c, fam, "tree-of-working-directory", wire.PlanCfg{Packager: pk, Umask: 0o022, MTime: 1700000000},
				[]wire.Content{{Src: src, Dst: "/opt/app/"}}, false)
		}
	}
	return nil
}

// c05DeclaredDirectories: a directory the configuration declares – with its own mode, owner and group – keeps them
// whichever entry comes before or after it: a file beneath it, a tree whose structure passes through it.
func c05DeclaredDirectories(c *Ctx, t *SrcTree) {
	fam := c.Rep.Family("declared-directories", "exhaustive: a declared directory (mode 02770, owner and group set) at {a plain path, a path other packages own (/var/log), a path beneath one (/var/lib/logrotate)} listed before and after {a file beneath it, a file two levels beneath it, a tree whose structure contains it, a tree rooted at it} x 5 packagers: files.PrepareForPackager vs the model of planning and the planning spec (the declared attributes survive or the list is refused as a collision – never a silent replacement); non-trivial = always")
	fam.Exhaustive = true
	fi := &wire.FileInfo{Mode: 0o2770, Owner: "demo", Group: "demo", MTime: wire.ZeroTime}
	tool := filepath.Join(t.Root, "bin/tool")
	for _, pk := range Formats {
		cfg := wire.PlanCfg{Packager: pk, Umask: 0o022, MTime: 1700000000}
		for _, d := range []string{"/srv/demo/state", "/var/log", "/var/lib/logrotate", "/var/lib"} {
			dir := wire.Content{Dst: d, Type: "dir", Info: fi}
			others := []wire.Content{
				{Src: tool, Dst: d + "/state.db"},
				{Src: tool, Dst: d + "/a/b/state.db"},
				{Src: filepath.Join(t.Root, "fsroot/var"), Dst: "/var", Type: "tree"},
				{Src: filepath.Join(t.Root, "fsroot/var/log"), Dst: d, Type: "tree"},
			}
			for _, o := range others {
				planCase(c, fam, "declared-directories", cfg, []wire.Content{dir, o}, false)
				planCase(c, fam, "declared-directories", cfg, []wire.Content{o, dir}, false)
			}
		}
	}
}

// c05SameBaseNames: one glob whose matches have the same base name in different directories, sent into a directory
// destination: both would occupy <dst>/<base name> – a collision, never a silent replacement.
func c05SameBaseNames(c *Ctx, t *SrcTree) {
	fam := c.Rep.Family("same-base-name-matches", "exhaustive: globs over the source tree whose matches share a base name in different directories (dup/site-a/app.conf, dup/site-b/app.conf, dup/site-b/other.conf) with a destination that ends in '/' (every match lands at <dst>/<base name>) and one that does not (structure kept) x 5 packagers x {file, config}: files.PrepareForPackager vs the model of planning and the planning spec; non-trivial = always")
	fam.Exhaustive = true
	for _, f := range []string{"dup/site-a/app.conf", "dup/site-b/app.conf", "dup/site-b/other.conf"} {
		p := filepath.Join(t.Root, f)
		_ = os.MkdirAll(filepath.Dir(p), 0o755)
		_ = os.WriteFile(p, []byte(f), 0o644)
	}
	for _, pk := range Formats {
		for _, typ := range []string{"", "config"} {
			for _, src := range []string{"dup/*/app.conf", "dup/**/*.conf", "dup/site-?/app.conf"} {
				for _, dst := range []string{"/etc/app/", "/etc/app"} {
					planCase(c, fam, "same-base-name-matches", wire.PlanCfg{Packager: pk, Umask: 0o022, MTime: 1700000000},
						[]wire.Content{{Src: filepath.Join(t.Root, src), Dst: dst, Type: typ}}, false)
				}
			}
		}
	}
}

// c05SourcesChangeBetweenPlans: the plan is a function of the content list and of the source files as they are when
// it is made.  The same list (same source spelling, same destination) is planned again in this process after files
// were added to and removed from the source directory, and once more after the first state was restored; every plan
// must be the model's plan of what is on disk at that moment (a result kept from an earlier call is not).
func c05SourcesChangeBetweenPlans(c *Ctx, t *SrcTree) {
	fam := c.Rep.Family("sources-change-between-plans", "exhaustive: {directory source, glob over it, glob with a destination ending in '/', tree} x five packagers, planned three times in one process: with mut/a.txt; after a.txt was removed and b.txt, sub/c.txt, sub/a.txt were added (the flattening destination /opt/flat/ then receives b.txt, c.txt and sub/a.txt); after the first state was restored; model plan of the files on disk at each moment vs files.PrepareForPackager; non-trivial = every case")
	fam.Exhaustive = true
	root := filepath.Join(t.Root, "mut")
	write := func(rel string) {
		p := filepath.Join(root, rel)
		_ = os.MkdirAll(filepath.Dir(p), 0o755)
		_ = os.WriteFile(p, []byte(rel), 0o644)
	}
	states := []func(){
		func() { _ = os.RemoveAll(root); write("a.txt") },
		func() { _ = os.RemoveAll(root); write("b.txt"); write("sub/c.txt"); write("sub/a.txt") },
		func() { _ = os.RemoveAll(root); write("a.txt") },
	}
	type form struct{ src, dst, typ string }
	forms := []form{{"mut", "/opt/demo", ""}, {"mut/*", "/opt/demo", ""}, {"mut/**/*.txt", "/opt/flat/", ""}, {"mut", "/opt/tree", "tree"}, {"mut/*.txt", "/etc/demo", "config"}}
	for _, st := range states {
		st()
		for _, pk := range Formats {
			for _, f := range forms {
				planCase(c, fam, "sources-change-between-plans", wire.PlanCfg{Packager: pk, Umask: 0o022, MTime: 1700000000},
					[]wire.Content{{Src: filepath.Join(t.Root, f.src), Dst: f.dst, Type: f.typ}}, false)
			}
		}
	}
	_ = os.RemoveAll(root)
}

// c05ConfigRoute: planning the way the CLI and library users get there – one parsed configuration, Config.Get(format)
// for one format after the other, each result prepared for its packager.  Entries addressed to single packagers are
// interleaved with entries for all; every format has an override block (Config.Get then filters the contents by tag).
func c05ConfigRoute(c *Ctx, t *SrcTree) {
	fam := c.Rep.Family("plans-from-one-configuration", "exhaustive over 7 orders of the five formats (the five rotations, the reverse, deb twice around rpm) x {override block for every format, no override blocks}: ONE configuration parsed from YAML whose contents interleave entries tagged for each single packager with untagged ones; Config.Get(format) in that order on the same Config, nfpm.PrepareForPackager on each result; every plan vs the model of planning and the planning spec applied to the contents the document states; non-trivial = always")
	fam.Exhaustive = true
	src := func(rel string) string { return filepath.Join(t.Root, rel) }
	raw := []wire.Content{
		{Src: src("etc/app.conf"), Dst: "/etc/app/deb.conf", Type: "config", Packager: "deb"},
		{Src: src("etc/app.conf"), Dst: "/etc/app/rpm.conf", Type: "config", Packager: "rpm"},
		{Src: src("etc/app.conf"), Dst: "/etc/app/common.conf", Type: "config"},
		{Src: src("bin/tool"), Dst: "/usr/bin/tool-apk", Packager: "apk"},
		{Dst: "/var/lib/app", Type: "dir"},
		{Src: src("bin/tool"), Dst: "/usr/bin/tool-ipk", Packager: "ipk"},
		{Src: src("bin/tool"), Dst: "/usr/bin/tool"},
		{Src: src("bin/tool"), Dst: "/usr/bin/tool-arch", Packager: "archlinux"},
		{Src: "/usr/bin/tool", Dst: "/usr/bin/tool-link", Type: "symlink"},
		// written in the document with `expand: true` and a variable for /opt/app: a destination that ends in a slash
		// (the source goes INTO that directory) and one that names the file
		{Src: src("bin/tool"), Dst: "/opt/app/bin/"},
		{Src: src("etc/app.conf"), Dst: "/opt/app/share/app.conf", Type: "config"},
	}
	var doc strings.Builder
	doc.WriteString("name: verifpkg\narch: amd64\nplatform: linux\nversion: 1.2.3\nmaintainer: Verif <verif@example.com>\ndescription: planning through Config.Get\nmtime: 2023-11-14T22:13:20Z\numask: 0o022\ncontents:\n")
	for _, e := range raw {
		if rest, ok := strings.CutPrefix(e.Dst, "/opt/app/"); ok {
			doc.WriteString("- dst: ${C05_PREFIX}/" + rest + "\n  expand: true\n")
		} else {
			doc.WriteString("- dst: " + e.Dst + "\n")
		}
		if e.Src != "" {
			doc.WriteString("  src: " + e.Src + "\n")
		}
		if e.Type != "" {
			fmt.Fprintf(&doc, "  type: %q\n", e.Type)
		}
		if e.Packager != "" {
			doc.WriteString("  packager: " + e.Packager + "\n")
		}
	}
	blocks := "overrides:\n"
	for _, f := range Formats {
		blocks += "  " + f + ":\n    depends: [only-" + f + "]\n"
	}
	orders := [][]string{}
	for i := range Formats {
		orders = append(orders, append(append([]string{}, Formats[i:]...), Formats[:i]...))
	}
	rev := []string{}
	for i := len(Formats) - 1; i >= 0; i-- {
		rev = append(rev, Formats[i])
	}
	orders = append(orders, rev, []string{"deb", "rpm", "deb", "apk", "rpm"})
	for _, withBlocks := range []bool{true, false} {
		y := doc.String()
		if withBlocks {
			y += blocks
		}
		for oi, order := range orders {
			cfg, err := nfpm.ParseWithEnvMapping(strings.NewReader(y), func(k string) string {
				if k == "C05_PREFIX" {
					return "/opt/app"
				}
				return ""
			})
			if err != nil {
				c.Rep.Note("plans-from-one-configuration: document does not parse: %v", err)
				return
			}
			for step, f := range order {
				var implCs []wire.Content
				implErr := ""
				info, gerr := cfg.Get(f)
				if gerr != nil {
					implErr = "other"
				} else {
					info = nfpm.WithDefaults(info)
					if perr := nfpm.PrepareForPackager(info, f); perr != nil {
						implErr = planErrClass(perr)
					} else {
						for _, rc := range info.Contents {
							implCs = append(implCs, fromReal(rc))
						}
					}
				}
				planCaseWith(c, fam, "plans-from-one-configuration", wire.PlanCfg{Packager: f, Umask: 0o022, MTime: 1700000000}, raw, false, implCs, implErr,
					fmt.Sprintf("|through Config.Get(%q) as step %d of the order %v on one parsed configuration (override blocks: %v)", f, step+1, order, withBlocks),
					map[string]any{"document": y, "order": order, "step": step + 1, "order_index": oi})
			}
		}
	}
}

func c05Path(c *Ctx) error {
	maxLen := c.N(6, 8)
	fam := c.Rep.Family("path", fmt.Sprintf("every string over {/ . a b space} up to length %d through Clean/NormalizeAbsoluteFilePath/NormalizeAbsoluteDirPath/AsRelativePath/AsExplicitRelativePath/Dir/Base, model vs Go; non-trivial = result differs from input; distinct by (function,input)", maxLen))
	fam.Exhaustive = true
	strs := enumStrings("/.ab ", maxLen)
	// plus a random stream with unicode and glob metacharacters
	r := c.R.Fork("path")
	extra := []string{"é", "*", "[", "]", "{", "}", "\\", "..", "...", "//", "~", "\x00", "\xff"}
	for i := 0; i < c.N(2000, 20000); i++ {
		var b strings.Builder
		n := 1 + r.Intn(6)
		for j := 0; j < n; j++ {
			switch r.Intn(4) {
			case 0:
				b.WriteString("/")
			case 1:
				b.WriteString(rng.Pick(r, extra))
			default:
				b.WriteString(rng.Pick(r, []string{"a", "usr", ".", "..", "b c", ".hidden", "x.y"}))
			}
		}
		strs = append(strs, b.String())
	}
	fns := []pathFn{
		{"clean", filepath.Clean},
		{"normfile", files.NormalizeAbsoluteFilePath},
		{"normfilet", files.NormalizeAbsoluteFilePath},
		{"normdir", files.NormalizeAbsoluteDirPath},
		{"asrel", files.AsRelativePath},
		{"asexrel", files.AsExplicitRelativePath},
		{"dir", filepath.Dir},
		{"base", filepath.Base},
	}
	for _, fn := range fns {
		reqs := make([]string, len(strs))
		for i, s := range strs {
			reqs[i] = fn.op + " " + wire.H(s)
		}
		ans, err := c.D.Batch(reqs)
		if err != nil {
			return err
		}
		for i, s := range strs {
			want := fn.impl(s)
			got, e := wire.UnH(ans[i])
			fam.Eval(fn.op+"\x00"+s, want != s)
			if e != nil || got != want {
				c.Rep.Disagree(report.Disagreement{Family: "path", What: fn.op, Input: map[string]any{"s": s}, Model: fmt.Sprintf("%q", got), Impl: fmt.Sprintf("%q", want)})
			}
		}
		fam.Count(fn.op)
	}
	// model-internal: transcription of sortedParents (iterated Dir) vs its component form
	reqs := make([]string, 0, 2*len(strs))
	for _, s := range strs {
		reqs = append(reqs, "parents "+wire.H(s), "parentsc "+wire.H(s))
	}
	ans, err := c.D.Batch(reqs)
	if err != nil {
		return err
	}
	for i, s := range strs {
		fam.Eval("parents\x00"+s, strings.Contains(s, "/"))
		if ans[2*i] != ans[2*i+1] {
			c.Rep.Disagree(report.Disagreement{Family: "path", What: "sortedParents transcription vs component form (both model)", Input: map[string]any{"s": s}, Model: ans[2*i+1], Impl: ans[2*i]})
		}
	}
	// pairs: Join and Rel
	short := enumStrings("/.a", c.N(4, 5))
	var preqs []string
	type pr struct{ a, b string }
	var prs []pr
	for _, a := range short {
		for _, b := range short {
			prs = append(prs, pr{a, b})
			preqs = append(preqs, "join "+wire.H(a)+" "+wire.H(b), "rel "+wire.H(a)+" "+wire.H(b))
		}
	}
	ans, err = c.D.Batch(preqs)
	if err != nil {
		return err
	}
	for i, p := range prs {
		wantJ := filepath.Join(p.a, p.b)
		gotJ, _ := wire.UnH(ans[2*i])
		fam.Eval("join\x00"+p.a+"\x00"+p.b, true)
		if gotJ != wantJ {
			c.Rep.Disagree(report.Disagreement{Family: "path", What: "join", Input: map[string]any{"a": p.a, "b": p.b}, Model: fmt.Sprintf("%q", gotJ), Impl: fmt.Sprintf("%q", wantJ)})
		}
		wantR, err := filepath.Rel(p.a, p.b)
		w := "err"
		if err == nil {
			w = "ok " + wire.H(wantR)
		}
		fam.Eval("rel\x00"+p.a+"\x00"+p.b, true)
		if ans[2*i+1] != w {
			c.Rep.Disagree(report.Disagreement{Family: "path", What: "rel", Input: map[string]any{"a": p.a, "b": p.b}, Model: ans[2*i+1], Impl: w})
		}
	}
	fam.Count("join+rel pairs")
	fam.Sample(map[string]any{"fn": "normdir", "input": "a//b/../c/", "impl": files.NormalizeAbsoluteDirPath("a//b/../c/")})
	return nil
}

// planCase runs one plan scenario through model, implementation and spec.
func planCase(c *Ctx, fam *report.Family, famName string, cfg wire.PlanCfg, raw []wire.Content, shrink bool) {
	implCs, implErr := realPlan(cfg, raw)
	planCaseWith(c, fam, famName, cfg, raw, shrink, implCs, implErr, "", nil)
}

// planCaseWith judges a planning result obtained by whatever route (route != "": not through realPlan; the key and the
// input then carry the route and its extra description).
func planCaseWith(c *Ctx, fam *report.Family, famName string, cfg wire.PlanCfg, raw []wire.Content, shrink bool, implCs []wire.Content, implErr string, route string, extra map[string]any) {
	o := fsoracle.Build(raw, cfg.NoGlob)
	req := wire.PlanReq(cfg, raw, o)
	ans, err := c.D.Batch([]string{req, "c05spec" + strings.TrimPrefix(req, "plan") + " " + encResult(implCs, implErr)})
	if err != nil {
		c.Rep.Note("driver: %v", err)
		return
	}
	modelCs, modelErr, perr := wire.ParseContents(ans[0])
	key := req + route
	nontrivial := len(implCs) > 1 || implErr != ""
	fam.Eval(key, nontrivial)
	if implErr != "" {
		fam.Count("error:" + implErr)
	} else {
		fam.Count(fmt.Sprintf("ok:entries<=%d", bucket(len(implCs))))
	}
	input := map[string]any{"packager": cfg.Packager, "umask": fmt.Sprintf("%o", cfg.Umask), "disable_globbing": cfg.NoGlob, "mtime": cfg.MTime, "contents": contentsToAny(raw)}
	for k, v := range extra {
		input[k] = v
	}
	if perr != nil || !samePlan(showPlan(modelCs, modelErr), showPlan(implCs, implErr)) {
		c.Rep.Disagree(report.Disagreement{Family: famName, What: "files.PrepareForPackager vs model plan", Input: input, Model: ans[0] + " :: " + showPlan(modelCs, modelErr), Impl: showPlan(implCs, implErr)})
	}
	if strings.HasPrefix(ans[1], "violated ") {
		clauses := strings.TrimPrefix(ans[1], "violated ")
		rawMin := raw
		if route != "" {
			c.Rep.Find(report.Finding{Property: "C05", Family: famName, Shape: clauses + route,
				What:  "the plan obtained " + strings.TrimPrefix(route, "|") + " violates the planning spec: " + clauses + "; got " + showPlan(implCs, implErr),
				Input: input})
			return
		}
		if shrink {
			rawMin = shrinkPlan(c, cfg, raw, clauses)
			input["contents"] = contentsToAny(rawMin)
		}
		ic, ie := realPlan(cfg, rawMin)
		c.Rep.Find(report.Finding{Property: "C05", Family: famName, Shape: clauses,
			What:  "files.PrepareForPackager result violates the planning spec: " + clauses + "; got " + showPlan(ic, ie),
			Input: input})
	} else if ans[1] != "holds" {
		c.Rep.Note("c05spec answered %q", ans[1])
	}
	if len(fam.Samples) < 3 && nontrivial {
		fam.Sample(map[string]any{"input": input, "impl": showPlan(implCs, implErr)})
	}
}

func bucket(n int) int {
	for _, b := range []int{1, 2, 4, 8, 16, 32, 64} {
		if n <= b {
			return b
		}
	}
	return 1 << 20
}

// shrinkPlan drops entries while the same violated clauses persist.
func shrinkPlan(c *Ctx, cfg wire.PlanCfg, raw []wire.Content, clauses string) []wire.Content {
	cur := raw
	for changed := true; changed; {
		changed = false
		for i := range cur {
			cand := append(append([]wire.Content{}, cur[:i]...), cur[i+1:]...)
			o := fsoracle.Build(cand, cfg.NoGlob)
			ic, ie := realPlan(cfg, cand)
			req := wire.PlanReq(cfg, cand, o)
			a, err := c.D.Ask("c05spec" + strings.TrimPrefix(req, "plan") + " " + encResult(ic, ie))
			if err == nil && a == "violated "+clauses {
				cur = cand
				changed = true
				break
			}
		}
	}
	return cur
}

func c05Spelling(c *Ctx) error {
	maxLen := c.N(5, 7)
	fam := c.Rep.Family("plan-spelling", fmt.Sprintf("every destination spelling over {/ . a b} up to length %d as a single symlink entry and as a single dir entry through files.PrepareForPackager; non-trivial = plan has more than one entry or errors", maxLen))
	fam.Exhaustive = true
	cfg := wire.PlanCfg{Packager: "", Umask: 0o022, MTime: 1700000000}
	for _, s := range enumStrings("/.ab", maxLen) {
		planCase(c, fam, "plan-spelling", cfg, []wire.Content{{Src: "target", Dst: s, Type: "symlink"}}, false)
		planCase(c, fam, "plan-spelling", cfg, []wire.Content{{Dst: s, Type: "dir"}}, false)
	}
	return nil
}

func c05Small(c *Ctx, t *SrcTree) error {
	dsts := []string{"/a", "/a/", "/a/b", "/a/b/c", "a/b", "/a/./b/", "/c"}
	type et struct{ typ, src string }
	types := []et{{"dir", ""}, {"symlink", "tgt"}, {"ghost", ""}, {"file", filepath.Join(t.Root, "etc/app.conf")}, {"config|noreplace", filepath.Join(t.Root, "etc/conf.d")}, {"tree", filepath.Join(t.Root, "tree/sub")}}
	tags := []string{"", "deb", "rpm"}
	maxN := c.N(2, 3)
	if c.Thorough() {
		dsts = dsts[:5]
		tags = tags[:2]
	}
	var universe []wire.Content
	for _, d := range dsts {
		for _, ty := range types {
			for _, tg := range tags {
				universe = append(universe, wire.Content{Src: ty.src, Dst: d, Type: ty.typ, Packager: tg})
			}
		}
	}
	fam := c.Rep.Family("plan-small", fmt.Sprintf("every list of 1..%d entries over a universe of %d entries (%d overlapping destinations x %d types x %d packager tags) for packagers deb and rpm; non-trivial = more than one planned entry or an error", maxN, len(universe), len(dsts), len(types), len(tags)))
	fam.Exhaustive = true
	pks := []string{"deb", "rpm"}
	var rec func(prefix []wire.Content, depth int)
	rec = func(prefix []wire.Content, depth int) {
		if len(prefix) > 0 {
			for _, pk := range pks {
				planCase(c, fam, "plan-small", wire.PlanCfg{Packager: pk, Umask: 0o022, MTime: 1700000000}, prefix, true)
			}
		}
		if depth == maxN {
			return
		}
		for _, u := range universe {
			rec(append(append([]wire.Content{}, prefix...), u), depth+1)
		}
	}
	rec(nil, 0)
	return nil
}

func c05Random(c *Ctx, t *SrcTree) error {
	n := c.N(1500, 40000)
	fam := c.Rep.Family("plan-random", "random content lists (1..7 entries: all entry types, globs, missing sources, overlapping and odd destinations, packager tags, partial file_info) over a materialised source tree, random packager/umask/disable_globbing/mtime; non-trivial = more than one planned entry or an error")
	r := c.R.Fork("plan-random")
	for i := 0; i < n; i++ {
		cfg, raw := genPlanScenario(r, t)
		planCase(c, fam, "plan-random", cfg, raw, true)
	}
	return nil
}

var dstPool = []string{"/usr/bin/tool", "/usr/bin/", "/usr/bin", "/etc/app", "/etc/app/", "/etc/app/conf.d", "/etc/app/conf.d/", "/opt/x", "/opt/x/", "/opt/x/y/z", "opt/rel", "/var/lib/app/", "/usr/share/doc/app", "/etc", "/a/../b", "/sp ace/f", "//dup//slash", "/opt/x/./dot", "/usr/share/doc/app/README", "/"}

func genContent(r *rng.R, t *SrcTree) wire.Content {
	c := wire.Content{}
	c.Dst = rng.Pick(r, dstPool)
	if r.Chance(1, 6) {
		c.Dst = c.Dst + rng.Pick(r, []string{"/", "/sub", "/.", "x"})
	}
	switch r.Intn(14) {
	case 0, 1, 2:
		c.Type = rng.Pick(r, []string{"", "file", "file"})
		c.Src = genSrc(r, t)
	case 3, 4:
		c.Type = rng.Pick(r, []string{"config", "config|noreplace", "config|missingok"})
		c.Src = genSrc(r, t)
	case 5, 6:
		c.Type = "dir"
		if r.Chance(1, 5) {
			c.Src = rng.Pick(r, t.Dirs)
		}
	case 7, 8:
		c.Type = "symlink"
		c.Src = rng.Pick(r, []string{"/usr/bin/tool", "../rel/target", "target", ""})
	case 9:
		c.Type = "tree"
		c.Src = rng.Pick(r, []string{filepath.Join(t.Root, "tree"), filepath.Join(t.Root, "tree/sub"), filepath.Join(t.Root, "etc"), filepath.Join(t.Root, "missing"), filepath.Join(t.Root, "bin/tool")})
	case 10:
		c.Type = "ghost"
	case 11:
		c.Type = rng.Pick(r, []string{"doc", "licence", "license", "readme"})
		c.Src = rng.Pick(r, t.Files)
	case 12:
		c.Type = rng.Pick(r, []string{"implicit dir", "debian changelog", "bogus", "Dir"})
	default:
		c.Type = "file"
		c.Src = rng.Pick(r, t.Files)
	}
	if r.Chance(1, 4) {
		c.Packager = rng.Pick(r, []string{"deb", "rpm", "apk", "archlinux", "ipk", "other"})
	}
	if r.Chance(1, 3) {
		fi := &wire.FileInfo{MTime: wire.ZeroTime}
		if r.Bool() {
			fi.Owner = rng.Pick(r, []string{"app", "root", "daemon"})
		}
		if r.Bool() {
			fi.Group = rng.Pick(r, []string{"app", "wheel"})
		}
		if r.Bool() {
			fi.Mode = rng.Pick(r, []uint32{0o644, 0o755, 0o600, 0o4755, 0o2775, 0o1777, 0o7777, 0o400})
		}
		if r.Chance(1, 3) {
			fi.MTime = 1500000000 + int64(r.Intn(1000))
		}
		c.Info = fi
	}
	return c
}

func genSrc(r *rng.R, t *SrcTree) string {
	switch r.Intn(12) {
	case 10:
		return filepath.Join(t.Root, "lib*")
	case 11:
		return filepath.Join(t.Root, "lib*/*.so")
	case 0:
		return filepath.Join(t.Root, "etc/conf.d/*.conf")
	case 1:
		return filepath.Join(t.Root, "etc/**/*.conf")
	case 2:
		return filepath.Join(t.Root, "etc/conf.d")
	case 3:
		return filepath.Join(t.Root, "missing.file")
	case 4:
		return filepath.Join(t.Root, "meta[1]/x{y}.txt")
	case 5:
		return filepath.Join(t.Root, "share/doc/*")
	case 6:
		return rng.Pick(r, t.Links)
	case 7:
		return filepath.Join(t.Root, "{bin,etc}/*")
	default:
		return rng.Pick(r, t.Files)
	}
}

func genPlanScenario(r *rng.R, t *SrcTree) (wire.PlanCfg, []wire.Content) {
	cfg := wire.PlanCfg{
		Packager: rng.Pick(r, []string{"", "deb", "rpm", "apk", "archlinux", "ipk"}),
		Umask:    rng.Pick(r, []uint32{0, 0o002, 0o022, 0o077}),
		NoGlob:   r.Chance(1, 5),
		MTime:    rng.Pick(r, []int64{wire.ZeroTime, 1700000000}),
	}
	n := 1 + r.Intn(7)
	raw := make([]wire.Content, n)
	for i := range raw {
		raw[i] = genContent(r, t)
	}
	return cfg, raw
}

// c05PayloadOfThePlan: the plan is what gets packaged – every planned entry reaches the archive under its planned
// destination, names that begin with a dot at the root included, and two planned entries never become one member.
func c05PayloadOfThePlan(c *Ctx, t *SrcTree) {
	fam := c.Rep.Family("payload-of-the-plan", "exhaustive: content lists whose destinations begin with a dot directly under the root, next to the same names without the dot (/.acme/state/marker and /acme/state/marker, /.autorelabel, /..data/x) x 5 formats: the payload of the built package, decoded by the independent readers, against what the planned entries denote (spec of C01); non-trivial = always")
	fam.Exhaustive = true
	tool := filepath.Join(t.Root, "bin/tool")
	conf := filepath.Join(t.Root, "etc/app.conf")
	lists := [][]wire.Content{
		{{Src: tool, Dst: "/.acme/state/marker"}, {Src: conf, Dst: "/acme/state/marker"}},
		{{Src: tool, Dst: "/.autorelabel"}, {Src: conf, Dst: "/etc/app/app.conf", Type: "config"}},
		{{Src: tool, Dst: "/..data/x"}, {Dst: "/.cache/", Type: "dir"}, {Src: "/.cache", Dst: "/.latest", Type: "symlink"}},
	}
	for _, raw := range lists {
		s := &PkgSpec{Raw: raw, Umask: 0o022, MTime: 1700000000}
		for _, f := range Formats {
			dec, plan, ok := payloadCase(c, fam, "payload-of-the-plan", s, f)
			if !ok {
				continue
			}
			ans, err := c.D.Ask(fmt.Sprintf("c01check %s %s %s", f, wire.EncContentsOut(plan), wire.EncMembers(dec.Members)))
			if err != nil {
				c.Rep.Note("driver: %v", err)
				return
			}
			if strings.HasPrefix(ans, "violated ") {
				cl := strings.TrimPrefix(ans, "violated ")
				in := s.Input()
				in["format"] = f
				c.Rep.Find(report.Finding{Property: "C05", Family: "payload-of-the-plan", Shape: f + ":payload-differs-from-the-plan:" + strings.SplitN(cl, "_", 2)[0],
					What: "the payload of the " + f + " package is not what the planned entries denote: " + cl, Input: in})
			}
		}
	}
}
