package props

import (
	"bytes"
	"crypto/sha256"
	"encoding/hex"
	"fmt"
	"os"
	"path/filepath"
	"reflect"
	"regexp"
	"sort"
	"strconv"
	"strings"

	"github.com/goreleaser/nfpm/v2"
	"gopkg.in/yaml.v3"
	"verif/harness/internal/report"
	"verif/harness/internal/rng"
	"verif/harness/internal/wire"
)

func init() { Registry["C02"] = runC02 }

// infoLeaves flattens a whole nfpm.Info (Go field paths; Overridables inline).
func infoLeaves(info *nfpm.Info) []leaf {
	var out []leaf
	dumpLeaves(reflect.ValueOf(info).Elem(), "", &out)
	return out
}

var descPool = []string{
	"short synopsis",
	// a line longer than any line-reader buffer (a generated licence text, a base64 blob pasted into the description)
	"synopsis\n" + strings.Repeat("long line without a break ", 3000) + "\nlast line",
	"Synopsis line\nsecond line\nthird line",
	"Synopsis\n\nparagraph after blank line\n\n\nmore",
	"  padded synopsis  \n  indented line  ",
	"unicode: héllo wörld — ✓\nлиния два\n日本語",
	"trailing newline\n",
	"tabs\tinside\nline with : colon\nKey: looks like a field",
	"dos line endings\r\nsecond\r\n",
	"white-space-only separator\n   \nsecond paragraph\n\t\nthird paragraph",
	"synopsis\n \n indented after a one-blank line\n.\n . \nend",
}

// genDescription: half of the time a pool entry, else 1..6 lines drawn from a small alphabet of line shapes
// (empty, blank-only, tab-only, dot, indented, trailing blanks, plain, field-like)
func genDescription(r *rng.R) string {
	if r.Bool() {
		return rng.Pick(r, descPool)
	}
	shapes := []string{"", " ", "   ", "\t", ".", " .", "  indented", "trailing  ", "plain words", "Key: value", "ünï", "\r"}
	n := 1 + r.Intn(6)
	lines := make([]string, n)
	for i := range lines {
		lines[i] = rng.Pick(r, shapes)
	}
	if lines[0] == "" || strings.TrimSpace(lines[0]) == "" {
		lines[0] = "synopsis " + lines[0]
	}
	return strings.Join(lines, "\n")
}

// the same package name under several constraints is legitimate and must survive (libfoo >= 1.2, libfoo < 2.0)
var relPool = []string{"bash", "libc6 >= 2.30", "foo = 1.2.3", "foo < 2.0", "foo >= 1.0", "bar < 2", "bar", "python3", "zsh >= 5", "with-dash", "cap.sule"}

func genRelList(r *rng.R) []string {
	n := r.Intn(5)
	var res []string
	for i := 0; i < n; i++ {
		res = append(res, rng.Pick(r, relPool))
	}
	return res
}

// genMetaInfo fills the metadata of an Info (contents are added by the caller).
func genMetaInfo(r *rng.R, info *nfpm.Info) {
	info.Name = rng.Pick(r, []string{"foo", "foo-bar", "lib_x+1", "a.b2"})
	info.Description = genDescription(r)
	info.Platform = rng.Pick(r, []string{"linux", "linux", "linux", "freebsd", "darwin"}) // apk and archlinux reject anything but linux
	info.Maintainer = rng.Pick(r, []string{"Jane Doe <jane@example.com>", "", "  ", "jane@example.com", "Ünï Cödé <u@example.org>"})
	info.Vendor = rng.Pick(r, []string{"", "ACME Corp"})
	info.Homepage = rng.Pick(r, []string{"", "https://example.com/x?y=1"})
	info.License = rng.Pick(r, []string{"", "MIT", "Apache-2.0 OR MIT"})
	info.Section = rng.Pick(r, []string{"", "utils", "misc"})
	info.Priority = rng.Pick(r, []string{"", "extra", "optional"})
	vc := genVerCase(r)
	if vc.Schema == "bogus" {
		vc.Schema = ""
	}
	vc.apply(info)
	info.Replaces, info.Provides, info.Depends = genRelList(r), genRelList(r), genRelList(r)
	info.Recommends, info.Suggests, info.Conflicts = genRelList(r), genRelList(r), genRelList(r)
	if r.Chance(1, 4) {
		info.Provides = append(info.Provides, "  ", "")
	}
	info.Deb.Predepends, info.Deb.Breaks = genRelList(r), genRelList(r)
	if r.Bool() {
		// custom fields incl. names Debian policy knows but nfpm's template never writes itself: they reach the control
		// file only from here
		info.Deb.Fields = rng.Pick(r, []map[string]string{
			{"Bugs": "https://bugs.example.com", "Empty": "", "Vcs-Git": "git://x"},
			{"Source": "verif-src", "Essential": "no", "Enhances": "other-pkg", "Built-Using": "gcc-12 (= 12.2.0-14)", "Multi-Arch": "foreign"},
		})
	}
	if r.Chance(1, 3) {
		info.Deb.Triggers.Interest = []string{"trig-a", "trig-b"}
		info.Deb.Triggers.ActivateNoAwait = []string{"/usr/share/x"}
		info.Deb.Triggers.InterestAwait = genRelList(r)
	} else if r.Chance(1, 2) {
		// each of the six directives on its own or with any of the others
		if r.Bool() {
			info.Deb.Triggers.Interest = []string{"trig-i"}
		}
		if r.Bool() {
			info.Deb.Triggers.InterestAwait = []string{"trig-ia"}
		}
		if r.Bool() {
			info.Deb.Triggers.InterestNoAwait = []string{"trig-ina", "/usr/lib/x"}
		}
		if r.Bool() {
			info.Deb.Triggers.Activate = []string{"trig-a"}
		}
		if r.Bool() {
			info.Deb.Triggers.ActivateAwait = []string{"trig-aa"}
		}
		if r.Bool() {
			info.Deb.Triggers.ActivateNoAwait = []string{"trig-ana"}
		}
	}
	info.IPK.Predepends, info.IPK.Tags = genRelList(r), genRelList(r)
	if r.Bool() {
		info.IPK.Fields = map[string]string{"Source": "src", "maintainer": "stripped", "Custom": "c", "SIZE": "1", "Blank": ""}
	}
	info.IPK.ABIVersion = rng.Pick(r, []string{"", "3"})
	info.IPK.AutoInstalled, info.IPK.Essential = r.Chance(1, 4), r.Chance(1, 4)
	if r.Chance(1, 3) {
		info.IPK.Alternatives = []nfpm.IPKAlternative{{Priority: 100, Target: "/usr/bin/x", LinkName: "/usr/bin/y"}, {Priority: 5, Target: "t", LinkName: "l"}}
	}
	info.RPM.Group = rng.Pick(r, []string{"", "System/Tools"})
	info.RPM.Summary = rng.Pick(r, []string{"", "explicit summary"})
	info.RPM.Packager = rng.Pick(r, []string{"", "Packager Inc"})
	if r.Chance(1, 3) {
		// relocation prefixes as written: several, the root itself, one written with a trailing slash
		info.RPM.Prefixes = rng.Pick(r, [][]string{{"/usr", "/opt"}, {"/"}, {"/srv/app/", "/opt"}})
	}
	info.ArchLinux.Pkgbase = rng.Pick(r, []string{"", "basepkg"})
	info.ArchLinux.Packager = rng.Pick(r, []string{"", "Arch Packager <a@b>"})
}

func leavesArg(info *nfpm.Info) string { return encLeaves(infoLeaves(info)) }

// metaCase: one Info x one format: control data vs model bytes and vs the logical spec.
func metaCase(c *Ctx, fam *report.Family, f string, s *PkgSpec, in map[string]any) {
	infoForModel := s.Info() // what Package receives
	la := leavesArg(infoForModel)
	var data []byte
	var err error
	if ask, _ := in["file_name_asked_first"].(bool); ask {
		// the way `nfpm package` with a directory (or no) target does it: the conventional file name is asked of the
		// very Info that is then packaged
		info := s.Info()
		if p, gerr := nfpm.Get(f); gerr == nil {
			_ = p.ConventionalFileName(info)
		}
		data, err = BuildPkg(f, info)
	} else {
		data, err = BuildPkg(f, s.Info())
	}
	key := fmt.Sprintf("%s|%v", f, in)
	if err != nil {
		fam.Eval(key, false)
		fam.Count(f + ":build-error")
		return
	}
	dec, err := DecodePkg(f, data)
	if err != nil {
		c.Rep.Note("decode %s: %v", f, err)
		return
	}
	fam.Eval(key, true)
	fam.Count(f)
	in2 := map[string]any{"format": f}
	for k, v := range in {
		in2[k] = v
	}
	disagree := func(what, model, impl string) {
		c.Rep.Disagree(report.Disagreement{Family: fam.Name, What: what, Input: in2, Model: model, Impl: impl})
	}
	find := func(ans string) {
		if strings.HasPrefix(ans, "violated ") {
			cl := strings.TrimPrefix(ans, "violated ")
			c.Rep.Find(report.Finding{Property: "C02", Family: fam.Name, Shape: f + ":" + cl, What: "control metadata of the " + f + " package does not state what the configuration states: " + cl, Input: in2})
		} else if ans != "holds" {
			c.Rep.Note("c02 answer: %.200s", ans)
		}
	}
	switch f {
	case "deb", "ipk":
		var body []byte
		if f == "deb" {
			body, _ = dec.Deb.ControlFile("control")
		} else {
			body, _ = dec.Ipk.ControlFile("control")
		}
		fields, _ := parseControl(body)
		size, _ := strconv.Atoi(fields["Installed-Size"])
		op := map[string]string{"deb": "debcontrol", "ipk": "ipkcontrol"}[f]
		ans, err := c.D.Batch([]string{fmt.Sprintf("%s %s %d", op, la, size), fmt.Sprintf("c02control %s %s %d %s", f, la, size, wire.H(string(body)))})
		if err != nil {
			c.Rep.Note("driver: %v", err)
			return
		}
		if m, _ := wire.UnH(ans[0]); m != string(body) {
			disagree(f+" control file bytes", m, string(body))
		}
		find(ans[1])
		if f == "deb" {
			trig, has := dec.Deb.ControlFile("triggers")
			a, _ := c.D.Ask("debtriggers " + la)
			m, _ := wire.UnH(a)
			if m != string(trig) || has != (len(m) > 0) {
				disagree("deb triggers file", m, string(trig))
				c.Rep.Find(report.Finding{Property: "C02", Family: fam.Name, Shape: "deb:triggers-differ", What: fmt.Sprintf("triggers file %q, configured %q", trig, m), Input: in2})
			}
		}
	case "apk":
		seg := dec.Apk.Segments[len(dec.Apk.Segments)-2]
		var body []byte
		for _, e := range seg.Entries {
			if e.Name == ".PKGINFO" {
				body = e.Body
			}
		}
		pm := metaOf(dec)
		size, _ := strconv.Atoi(first(pm.Multi["size"]))
		dh := first(pm.Multi["datahash"])
		ans, err := c.D.Batch([]string{fmt.Sprintf("apkpkginfo %s %d %s", la, size, wire.H(dh)), fmt.Sprintf("c02apk %s %d %s %s", la, size, wire.H(dh), wire.H(string(body)))})
		if err != nil {
			return
		}
		if m, _ := wire.UnH(ans[0]); m != string(body) {
			disagree("apk .PKGINFO bytes", m, string(body))
		}
		find(ans[1])
	case "archlinux":
		pm := metaOf(dec)
		size, _ := strconv.Atoi(first(pm.Multi["size"]))
		bd, _ := strconv.ParseInt(first(pm.Multi["builddate"]), 10, 64)
		bk := encBytesList(pm.Multi["backup"])
		body := dec.Arch.PkginfoRaw
		ans, err := c.D.Batch([]string{fmt.Sprintf("archpkginfo %s %d %d %s", la, size, bd, bk), fmt.Sprintf("c02arch %s %d %d %s %s", la, size, bd, bk, wire.H(string(body)))})
		if err != nil {
			return
		}
		if m, _ := wire.UnH(ans[0]); m != string(body) {
			disagree("archlinux .PKGINFO bytes", m, string(body))
		}
		if ans[1] == "violated value-differs:pkgver" {
			// the recorded finding is one specific case: no epoch, a prerelease, and pkgver = version-pkgrel with the
			// prerelease left out. Any other difference in pkgver is not that finding.
			rel := 1
			if n, err := strconv.Atoi(infoForModel.Release); err == nil {
				rel = n
			}
			recorded := infoForModel.Epoch == "" && infoForModel.Prerelease != "" && first(pm.Multi["pkgver"]) == fmt.Sprintf("%s-%d", infoForModel.Version, rel)
			if !recorded {
				c.Rep.Find(report.Finding{Property: "C02", Family: fam.Name, Shape: "archlinux:value-differs:pkgver:not-the-recorded-prerelease-case",
					What:  fmt.Sprintf("archlinux pkgver %q does not state what the configuration states (version %q prerelease %q release %q epoch %q)", first(pm.Multi["pkgver"]), infoForModel.Version, infoForModel.Prerelease, infoForModel.Release, infoForModel.Epoch),
					Input: in2})
			} else {
				find(ans[1])
			}
		} else {
			find(ans[1])
		}
	case "rpm":
		host, _ := os.Hostname()
		a, err := c.D.Ask(fmt.Sprintf("rpmtags %s %s", la, wire.H(host)))
		if err != nil {
			return
		}
		toks := strings.Fields(a)
		for i := 1; i+1 < len(toks); i += 2 {
			tag, _ := strconv.Atoi(toks[i])
			want, _ := wire.UnH(toks[i+1])
			got := ""
			if t, ok := dec.Rpm.Hdr[tag]; ok && len(t.Strs) > 0 {
				got = t.Strs[0]
			}
			if got != want {
				disagree(fmt.Sprintf("rpm header tag %d", tag), want, got)
				c.Rep.Find(report.Finding{Property: "C02", Family: fam.Name, Shape: fmt.Sprintf("rpm:tag-%d-differs", tag), What: fmt.Sprintf("tag %d = %q, configuration states %q", tag, got, want), Input: in2})
			}
		}
		// optional tags must be absent when not configured
		for tag, val := range map[int]string{1011: infoForModel.Vendor, 1016: infoForModel.RPM.Group, 1020: infoForModel.Homepage} {
			if _, ok := dec.Rpm.Hdr[tag]; ok && val == "" {
				c.Rep.Find(report.Finding{Property: "C02", Family: fam.Name, Shape: fmt.Sprintf("rpm:tag-%d-without-setting", tag), What: "optional tag present although not configured", Input: in2})
			}
		}
		// relations: configured names complete, in order (first occurrences), under the right tag
		rel := map[int][]string{1047: infoForModel.Provides, 1049: infoForModel.Depends, 1054: infoForModel.Conflicts, 1090: infoForModel.Replaces, 5046: infoForModel.Recommends, 5049: infoForModel.Suggests}
		for tag, items := range rel {
			var names []string
			if t, ok := dec.Rpm.Hdr[tag]; ok {
				names = t.Strs
			}
			pos := 0
			seen := map[string]bool{}
			for _, it := range items {
				if strings.TrimSpace(it) == "" || seen[it] {
					continue
				}
				seen[it] = true
				name := strings.Fields(it)[0]
				found := false
				for pos < len(names) {
					if names[pos] == name {
						found = true
						pos++
						break
					}
					pos++
				}
				if !found {
					c.Rep.Find(report.Finding{Property: "C02", Family: fam.Name, Shape: fmt.Sprintf("rpm:relation-%d-incomplete-or-reordered", tag), What: fmt.Sprintf("relation tag %d holds %q, configured %q", tag, names, items), Input: in2})
					break
				}
			}
		}
		// … and exactly: names, versions and sense flags of all six categories against the model of rpm.toRelation and
		// rpmpack's NewRelation / Set / AddToIndex (RpmRel.lean; rpm_relation_roundtrip, rpm_relations_complete_in_order)
		{
			enc := func(items []string) string {
				var b strings.Builder
				fmt.Fprintf(&b, "%d", len(items))
				for _, it := range items {
					b.WriteString(" " + wire.H(it))
				}
				return b.String()
			}
			hs := func(tag int) string {
				if t, ok := dec.Rpm.Hdr[tag]; ok && len(t.Strs) > 0 {
					return t.Strs[0]
				}
				return ""
			}
			req := fmt.Sprintf("rpmrels %s %s %s %s %s %s %s %s", wire.H(hs(1000)), wire.H(hs(1001)+"-"+hs(1002)),
				enc(infoForModel.Provides), enc(infoForModel.Depends), enc(infoForModel.Recommends), enc(infoForModel.Replaces), enc(infoForModel.Suggests), enc(infoForModel.Conflicts))
			var want strings.Builder
			n := 0
			for _, tag := range []int{1047, 1113, 1112, 1090, 1115, 1114, 5049, 5050, 5051, 5046, 5047, 5048, 1049, 1050, 1048, 1054, 1055, 1053} {
				t, ok := dec.Rpm.Hdr[tag]
				if !ok {
					continue
				}
				n++
				var d []byte
				if t.Type == 4 {
					for _, v := range t.Ints {
						d = append(d, byte(v>>24), byte(v>>16), byte(v>>8), byte(v))
					}
				} else {
					for _, sv := range t.Strs {
						d = append(append(d, sv...), 0)
					}
				}
				fmt.Fprintf(&want, " %d %d %d %s", t.Tag, t.Type, t.Count, wire.H(string(d)))
			}
			wantS := fmt.Sprintf("%d%s", n, want.String())
			if a, err := c.D.Ask(req); err == nil && a != wantS {
				canonical := true
				for _, l := range [][]string{infoForModel.Provides, infoForModel.Depends, infoForModel.Recommends, infoForModel.Replaces, infoForModel.Suggests, infoForModel.Conflicts} {
					for _, it := range l {
						if !rpmCanonicalRelation.MatchString(it) {
							canonical = false
						}
					}
				}
				disagree("rpm relation entries (names, versions, flags of provides, obsoletes, suggests, recommends, requires, conflicts) vs model", a, wantS)
				if canonical && a != "error" {
					c.Rep.Find(report.Finding{Property: "C02", Family: fam.Name, Shape: "rpm:relations-differ-from-configuration",
						What:  fmt.Sprintf("the relation entries of the rpm header are not what the configured relations denote (every item is spelled `name` or `name op version`): header %.400s, configuration denotes %.400s", wantS, a),
						Input: in2})
				}
			}
		}
		// … and the main header as a whole: every entry (tag, type, count, data) in tag order against the model of the
		// header rpmpack assembles (RpmGen.lean, rpm_main_header_reads_back) from the configuration's resolved values (the
		// model's own string tags), the files found in the package, the configured relations, the script files and the
		// changelog tags as found (chglog's formatting is library code)
		func() {
			mv := map[int]string{}
			for i := 1; i+1 < len(toks); i += 2 {
				tg, _ := strconv.Atoi(toks[i])
				v, _ := wire.UnH(toks[i+1])
				mv[tg] = v
			}
			x := dec.Rpm
			optNat := func(sv string, ok bool) string {
				if !ok {
					return wire.H("")
				}
				return wire.H(sv)
			}
			epoch := optNat("", false)
			if infoForModel.Epoch != "" {
				if n, perr := strconv.ParseUint(infoForModel.Epoch, 10, 32); perr == nil {
					epoch = optNat(strconv.FormatUint(n, 10), true)
				} else {
					return
				}
			}
			buildTime := optNat("", false)
			if s.MTime != wire.ZeroTime {
				buildTime = optNat(strconv.FormatInt(s.MTime, 10), true)
			} else if t, ok := x.Hdr[1006]; ok && len(t.Ints) == 1 {
				buildTime = optNat(strconv.FormatUint(t.Ints[0], 10), true) // the clock: taken as found
			}
			comp := strings.SplitN(infoForModel.RPM.Compression, ":", 2)[0]
			if comp == "" {
				comp = "gzip"
			}
			encL := func(items []string) string {
				var b strings.Builder
				fmt.Fprintf(&b, "%d", len(items))
				for _, it := range items {
					b.WriteString(" " + wire.H(it))
				}
				return b.String()
			}
			payloadSize := 0
			bodies := map[string][]byte{}
			for _, ce := range x.Cpio {
				payloadSize += len(ce.Body)
				bodies[ce.Name] = ce.Body
			}
			psum := sha256.Sum256(x.PayloadRaw)
			script := func(path string) (string, bool) {
				if path == "" {
					return wire.H(""), true
				}
				b, rerr := os.ReadFile(path)
				if rerr != nil || bytes.IndexByte(b, 0) >= 0 {
					return "", false
				}
				return wire.H(string(b)), true
			}
			var scr []string
			for _, pth := range []string{infoForModel.RPM.Scripts.PreTrans, infoForModel.Scripts.PreInstall, infoForModel.Scripts.PostInstall, infoForModel.Scripts.PreRemove,
				infoForModel.Scripts.PostRemove, infoForModel.RPM.Scripts.PostTrans, infoForModel.RPM.Scripts.Verify} {
				h, ok := script(pth)
				if !ok {
					return
				}
				scr = append(scr, h)
			}
			var fl strings.Builder
			fmt.Fprintf(&fl, "%d", len(x.Files))
			for _, rf := range x.Files {
				body := bodies[rf.Name]
				sum := sha256.Sum256(body)
				fmt.Fprintf(&fl, " %s %d %d %s %s %d %d %s %s", wire.H(rf.Name), rf.Mode, rf.Flags, wire.H(rf.User), wire.H(rf.Group), rf.MTime,
					len(body), wire.H(hex.EncodeToString(sum[:])), wire.H(string(body)))
			}
			var chT, chN, chX []string
			if t, ok := x.Hdr[1080]; ok {
				for _, v := range t.Ints {
					chT = append(chT, strconv.FormatUint(v, 10))
				}
				chN, chX = x.Hdr[1081].Strs, x.Hdr[1082].Strs
			}
			encN := func(items []string) string {
				var b strings.Builder
				fmt.Fprintf(&b, "%d", len(items))
				for _, it := range items {
					b.WriteString(" " + it)
				}
				return b.String()
			}
			req := strings.Join([]string{"rpmheader", wire.H(mv[1000]), wire.H(mv[1001]), wire.H(mv[1002]), epoch, wire.H(mv[1004]), wire.H(mv[1005]), wire.H(mv[1007]), buildTime,
				encL(infoForModel.RPM.Prefixes), wire.H(comp), wire.H(mv[1022]), wire.H(mv[1021]), wire.H(mv[1011]), wire.H(mv[1014]), wire.H(mv[1015]), wire.H(mv[1016]), wire.H(mv[1020]),
				strconv.Itoa(payloadSize), wire.H(hex.EncodeToString(psum[:])), scr[0], scr[1], scr[2], scr[3], scr[4], scr[5], scr[6], fl.String(),
				encL(infoForModel.Provides), encL(infoForModel.Depends), encL(infoForModel.Recommends), encL(infoForModel.Replaces), encL(infoForModel.Suggests), encL(infoForModel.Conflicts),
				encN(chT), encL(chN), encL(chX)}, " ")
			var want strings.Builder
			n := 0
			for i, tg := range x.HdrOrder {
				if i == 0 && tg == 63 {
					continue
				}
				t := x.Hdr[tg]
				var d []byte
				switch t.Type {
				case 3:
					for _, v := range t.Ints {
						d = append(d, byte(v>>8), byte(v))
					}
				case 4:
					for _, v := range t.Ints {
						d = append(d, byte(v>>24), byte(v>>16), byte(v>>8), byte(v))
					}
				case 6, 8:
					for _, sv := range t.Strs {
						d = append(append(d, sv...), 0)
					}
				case 7:
					d = t.Bin
				default:
					return
				}
				n++
				fmt.Fprintf(&want, " %d %d %d %s", t.Tag, t.Type, t.Count, wire.H(string(d)))
			}
			wantS := fmt.Sprintf("%d%s", n, want.String())
			ans, aerr := c.D.Ask(req)
			if aerr != nil || ans == "error" {
				return
			}
			fam.Count("rpm:whole-header-compared")
			if ans != wantS {
				disagree("rpm main header as a whole (every entry in tag order) vs the model of the header rpmpack assembles", ans, wantS)
				c.Rep.Find(report.Finding{Property: "C02", Family: fam.Name, Shape: "rpm:main-header-differs-from-configuration",
					What:  "the main header of the rpm is not what the configuration, the files shipped, the relations and the scripts denote (an entry is missing, extra, of another type or holds other data): " + c34FirstDiff(ans, wantS),
					Input: in2})
			}
		}()
		if infoForModel.Epoch != "" {
			if t, ok := dec.Rpm.Hdr[1003]; !ok || len(t.Ints) == 0 || strconv.FormatUint(t.Ints[0], 10) != strings.TrimLeft(infoForModel.Epoch, "0") && !(infoForModel.Epoch == "0" && t.Ints[0] == 0) {
				c.Rep.Find(report.Finding{Property: "C02", Family: fam.Name, Shape: "rpm:epoch-differs", What: "epoch tag differs from configured epoch " + infoForModel.Epoch, Input: in2})
			}
		}
		if len(infoForModel.RPM.Prefixes) > 0 {
			if t := dec.Rpm.Hdr[1098]; strings.Join(t.Strs, ",") != strings.Join(infoForModel.RPM.Prefixes, ",") {
				c.Rep.Find(report.Finding{Property: "C02", Family: fam.Name, Shape: "rpm:prefixes-differ", What: fmt.Sprintf("the PREFIXES tag holds %q, the configuration states %q", t.Strs, infoForModel.RPM.Prefixes), Input: in2})
			}
		}
	}
	if len(fam.Samples) < 2 {
		fam.Sample(in2)
	}
}

// a relation spelled the way rpm spells it: a name, optionally followed by one of the five operators and a version
var rpmCanonicalRelation = regexp.MustCompile(`^[^=<>\s(][^=<>\s]*( (<|>|=|<=|>=) [^=<>\s][^\n]*)?$`)

func first(xs []string) string {
	if len(xs) > 0 {
		return xs[0]
	}
	return ""
}

func runC02(c *Ctx) error {
	r := c.R.Fork("c02")
	// ---- exhaustive architecture table: every documented GOARCH (+ unknown, + override) x 5 formats
	fam := c.Rep.Family("arch-table", "exhaustive: every GOARCH of the documented table plus mips float variants, an unknown architecture and a format-specific override x 5 formats: the architecture stated inside the package vs the model's translation (tables regenerated from the source); each case also on a non-linux platform with the conventional file name asked of the Info before it is packaged (what the CLI does for a directory target)")
	fam.Exhaustive = true
	arches := []string{"386", "amd64", "arm64", "arm5", "arm6", "arm7", "mips", "mipsle", "mips64le", "ppc64le", "s390", "all", "riscv64", "mipssoftfloat", "mips64lehardfloat"}
	for _, a := range arches {
		// an override is used verbatim even when it happens to be a GOARCH name of the translation table
		for _, ov := range []string{"", "custom-arch", "arm64", "all", "386"} {
			for _, f := range Formats {
				a, ov, f := a, ov, f
				s := &PkgSpec{Umask: 0o022, MTime: 1700000000, Mutate: func(info *nfpm.Info) {
					info.Arch = a
					switch f {
					case "deb":
						info.Deb.Arch = ov
					case "rpm":
						info.RPM.Arch = ov
					case "apk":
						info.APK.Arch = ov
					case "ipk":
						info.IPK.Arch = ov
					case "archlinux":
						info.ArchLinux.Arch = ov
					}
					nfpm.WithDefaults(info)
				}}
				metaCase(c, fam, f, s, map[string]any{"arch": a, "override": ov})
				if ov == "" || ov == "custom-arch" {
					s2 := &PkgSpec{Umask: 0o022, MTime: 1700000000, Mutate: func(info *nfpm.Info) {
						s.Mutate(info)
						if f == "deb" || f == "rpm" || f == "ipk" {
							info.Platform = "freebsd"
						}
					}}
					metaCase(c, fam, f, s2, map[string]any{"arch": a, "override": ov, "platform": "freebsd where the format allows it", "file_name_asked_first": true})
				}
			}
		}
	}
	// ---- the GoReleaser float suffix of mips architectures: the documented rule is "mips…softfloat / …hardfloat is the
	// architecture without the suffix", stated here independently of nfpm.WithDefaults (whose result feeds the model above)
	famM := c.Rep.Family("mips-float-suffix", "exhaustive: {mips, mipsle, mips64, mips64le} x {softfloat, hardfloat} x 5 formats through nfpm.WithDefaults: the architecture the package states must be the one it states for the same architecture without the suffix, and for plain `mips` the documented one (deb, rpm: mips; elsewhere verbatim)")
	famM.Exhaustive = true
	for _, f := range Formats {
		stated := func(a string) (string, bool) {
			pm, _, err := buildMeta(f, func(info *nfpm.Info) { info.Arch = a; nfpm.WithDefaults(info) })
			return pm.Arch, err == nil
		}
		for _, base := range []string{"mips", "mipsle", "mips64", "mips64le"} {
			want, ok := stated(base)
			famM.Eval(f+"|"+base, ok)
			if !ok {
				continue
			}
			if base == "mips" && want != "mips" {
				c.Rep.Find(report.Finding{Property: "C02", Family: "mips-float-suffix", Shape: f + ":architecture-differs-from-documented:mips",
					What: fmt.Sprintf("arch mips: the %s package states architecture %q, the documented translation is mips", f, want), Input: map[string]any{"format": f, "arch": base}})
			}
			for _, suf := range []string{"softfloat", "hardfloat"} {
				got, ok := stated(base + suf)
				famM.Eval(f+"|"+base+suf, ok)
				if ok && got != want {
					c.Rep.Find(report.Finding{Property: "C02", Family: "mips-float-suffix", Shape: f + ":float-suffix-not-stripped-to-the-architecture",
						What: fmt.Sprintf("arch %s: the %s package states architecture %q, for %s it states %q", base+suf, f, got, base, want), Input: map[string]any{"format": f, "arch": base + suf}})
				}
			}
		}
	}
	// ---- one configuration held in memory, packaged for several formats in turn (a release tool): the relations every
	// package states are the configured ones, whichever format was packaged before
	famS := c.Rep.Family("relations-from-a-shared-configuration", "exhaustive over 4 orders: one nfpm.Config built in Go whose provides / depends / replaces lists contain blank items before and between the real ones, packaged through Config.Get for ipk, deb, ipk, deb, apk …: the Provides / Depends / Replaces the deb and ipk control files state against the configured items; non-trivial = always")
	famS.Exhaustive = true
	for oi, order := range [][]string{{"ipk", "ipk", "deb", "ipk"}, {"deb", "ipk", "deb"}, {"ipk", "deb", "rpm", "deb"}, {"apk", "archlinux", "ipk", "deb", "ipk"}} {
		base := (&PkgSpec{Umask: 0o022, MTime: 1700000000}).Info()
		base.Provides = []string{"  ", "prov-a", "", "prov-b (= 1.0)"}
		base.Depends = []string{"dep-a", "dep-b (>= 2)"}
		base.Replaces = []string{"old-a"}
		cfg := &nfpm.Config{Info: *base}
		for step, f := range order {
			gi, err := cfg.Get(f)
			if err != nil {
				break
			}
			data, err := BuildPkg(f, nfpm.WithDefaults(gi))
			famS.Eval(fmt.Sprintf("%d|%d|%s", oi, step, f), err == nil)
			if err != nil || (f != "deb" && f != "ipk") {
				continue
			}
			dec, err := DecodePkg(f, data)
			if err != nil {
				continue
			}
			pm := metaOf(dec)
			for field, want := range map[string]string{"Provides": "prov-a, prov-b (= 1.0)", "Depends": "dep-a, dep-b (>= 2)", "Replaces": "old-a"} {
				if got := pm.Fields[field]; got != want {
					c.Rep.Find(report.Finding{Property: "C02", Family: "relations-from-a-shared-configuration", Shape: f + ":relation-differs-after-earlier-packagings:" + field,
						What:  fmt.Sprintf("%s of the %s package built as step %d of %v from one configuration: %q, configured %q", field, f, step+1, order, got, want),
						Input: map[string]any{"order": order, "step": step + 1, "format": f, "provides": base.Provides, "depends": base.Depends}})
				}
			}
		}
	}
	// ---- epochs at the ends of their range
	famE := c.Rep.Family("epoch-boundaries", "exhaustive: epoch in {0, 1, 2147483647, 2147483648, 4294967294, 4294967295} x 5 formats: the epoch the package states vs the configured one (control version prefix / rpm EPOCH tag and the whole rpm header / pkgver); a value the format cannot carry must be refused, not dropped; non-trivial = always")
	famE.Exhaustive = true
	for _, ep := range []string{"0", "1", "2147483647", "2147483648", "4294967294", "4294967295"} {
		for _, f := range Formats {
			ep := ep
			s := &PkgSpec{Umask: 0o022, MTime: 1700000000, Mutate: func(info *nfpm.Info) {
				info.Epoch = ep
				nfpm.WithDefaults(info)
			}}
			metaCase(c, famE, f, s, map[string]any{"epoch": ep})
		}
	}
	// ---- rpm changelog entries
	c02RpmChangelog(c)
	// ---- random metadata
	fam2 := c.Rep.Family("metadata", "random metadata (unicode, multi-line and blank-line descriptions, CRLF, padded values, empty optional fields, relation lists with version constraints and blank items, custom fields incl. reserved ipk names, triggers, ipk alternatives/tags/ABI, rpm group/summary/packager/prefixes, archlinux pkgbase/packager, all version component combinations; every second case with the conventional file name asked of the Info first) x 5 formats: control member bytes vs model, control data parsed by the Lean parsers vs the logical fields the configuration states; non-trivial = every built case")
	tree, err := MkTree(c.Tmp+"/src", 0)
	if err != nil {
		return err
	}
	// every description of the pool once, in every format (deterministic: the corpus of description shapes)
	for di, d := range descPool {
		d := d
		s := &PkgSpec{Umask: 0o022, MTime: 1700000000, Mutate: func(info *nfpm.Info) {
			info.Description = d
			nfpm.WithDefaults(info)
		}}
		for _, f := range Formats {
			metaCase(c, fam2, f, s, map[string]any{"description_pool_index": di, "description": d})
		}
	}
	n := c.N(120, 4000)
	for i := 0; i < n; i++ {
		seed := r.U64()
		withContents := r.Bool()
		s := &PkgSpec{Umask: 0o022, MTime: 1700000000}
		if withContents {
			s.Raw = []wire.Content{{Src: tree.Root + "/etc/app.conf", Dst: "/etc/app/app.conf", Type: "config"}, {Src: tree.Root + "/bin/tool", Dst: "/usr/bin/tool"}}
		}
		s.Mutate = func(info *nfpm.Info) {
			genMetaInfo(rng.New(seed), info)
			nfpm.WithDefaults(info)
		}
		// the version components the packagers are given must be the ones the configuration states
		// (model of nfpm.WithDefaults' version handling, Props/C14 split_* theorems)
		{
			pi := &nfpm.Info{}
			genMetaInfo(rng.New(seed), pi)
			vi := VInfo{Version: pi.Version, Schema: pi.VersionSchema, Prerelease: pi.Prerelease, Metadata: pi.VersionMetadata}
			want, err := c.D.Ask("vdefaults " + vi.Enc())
			if err != nil {
				return err
			}
			stated := map[string]any{"version": pi.Version, "version_schema": pi.VersionSchema, "prerelease": pi.Prerelease, "version_metadata": pi.VersionMetadata}
			nfpm.WithDefaults(pi)
			got := fmt.Sprintf("%s %s %s", wire.H(pi.Version), wire.H(pi.Prerelease), wire.H(pi.VersionMetadata))
			if want != got {
				c.Rep.Find(report.Finding{Property: "C02", Family: "metadata", Shape: "version-components-differ-from-configuration",
					What:  fmt.Sprintf("nfpm.WithDefaults hands the packagers version=%q prerelease=%q metadata=%q; the configuration states (model) %s", pi.Version, pi.Prerelease, pi.VersionMetadata, want),
					Input: map[string]any{"case_seed": seed, "configured": stated}})
			}
		}
		for _, f := range Formats {
			metaCase(c, fam2, f, s, map[string]any{"case_seed": seed, "contents": withContents, "file_name_asked_first": i%2 == 1})
		}
	}
	return c02YAMLRoute(c, r)
}

// c02YAMLRoute: the route a user's nfpm.yaml takes.  The same random metadata is written out as a YAML document
// (yaml.v3 over nfpm.Config's own tags), read back with nfpm.Parse and asked for per format with Config.Get; every
// leaf the packager is then handed must be the leaf the document states – after nfpm.WithDefaults and, for the six
// relation lists the documentation calls expandable, after trimming blanks and dropping empty items (C16
// expandSlice_no_dollar; values holding '$' are left out here, C16 owns them).  Together with the metadata family
// (the package states what the packager was handed) this is "the package states what the configuration states".
// c02RpmChangelog: "changelog entries appear iff configured and with the configured values" for rpm: one
// CHANGELOGTIME / CHANGELOGNAME / CHANGELOGTEXT triple per entry of the changelog file, in file order – the date the
// entry states, "<packager> - <version>", and every note of the entry in the text.
func c02RpmChangelog(c *Ctx) {
	fam := c.Rep.Family("rpm-changelog", "exhaustive over 4 changelog files (one entry; three entries; an entry without changes between two with; an entry without a date) : the rpm header's changelog tags 1080/1081/1082 vs the entries of the file (count, order, date, packager and version, every note); non-trivial = always")
	fam.Exhaustive = true
	type ent struct {
		semver, date, packager string
		unix                   int64
		notes                  []string
	}
	files := map[string][]ent{
		"one-entry":                     {{"1.0.0", "2020-01-02T03:04:05Z", "Verif <verif@example.com>", 1577934245, []string{"first release"}}},
		"three-entries":                 {{"1.2.0", "2022-05-06T07:08:09Z", "A <a@example.com>", 1651820889, []string{"third", "second note"}}, {"1.1.0", "2021-03-04T05:06:07Z", "B <b@example.com>", 1614834367, []string{"second"}}, {"1.0.0", "2020-01-02T03:04:05Z", "C <c@example.com>", 1577934245, []string{"first"}}},
		"entry-without-changes-between": {{"1.2.0", "2022-05-06T07:08:09Z", "A <a@example.com>", 1651820889, []string{"third"}}, {"1.1.0", "2021-03-04T05:06:07Z", "B <b@example.com>", 1614834367, nil}, {"1.0.0", "2020-01-02T03:04:05Z", "C <c@example.com>", 1577934245, []string{"first"}}},
		"entry-without-date":            {{"1.1.0", "2021-03-04T05:06:07Z", "B <b@example.com>", 1614834367, []string{"dated"}}, {"1.0.0", "", "C <c@example.com>", 2288912640, []string{"undated"}}},
	}
	dir := filepath.Join(c.Tmp, "c02-changelogs")
	_ = os.MkdirAll(dir, 0o755)
	for name, ents := range files {
		var y strings.Builder
		y.WriteString("---\n")
		for _, e := range ents {
			fmt.Fprintf(&y, "- semver: %s\n", e.semver)
			if e.date != "" {
				fmt.Fprintf(&y, "  date: %s\n", e.date)
			}
			fmt.Fprintf(&y, "  packager: %s\n", e.packager)
			if len(e.notes) > 0 {
				y.WriteString("  changes:\n")
				for _, n := range e.notes {
					fmt.Fprintf(&y, "    - note: %q\n", n)
				}
			}
		}
		path := filepath.Join(dir, name+".yaml")
		_ = os.WriteFile(path, []byte(y.String()), 0o644)
		s := &PkgSpec{Umask: 0o022, MTime: 1700000000, Mutate: func(info *nfpm.Info) {
			info.Changelog = path
			nfpm.WithDefaults(info)
		}}
		data, err := BuildPkg("rpm", s.Info())
		fam.Eval(name, true)
		in := map[string]any{"format": "rpm", "changelog_file": y.String()}
		if err != nil {
			c.Rep.Find(report.Finding{Property: "C02", Family: fam.Name, Shape: "rpm:changelog:build-error", What: "an rpm with this changelog does not build: " + err.Error(), Input: in})
			continue
		}
		dec, derr := DecodePkg("rpm", data)
		if derr != nil {
			continue
		}
		times, names, texts := dec.Rpm.Hdr[1080].Ints, dec.Rpm.Hdr[1081].Strs, dec.Rpm.Hdr[1082].Strs
		bad := ""
		if len(times) != len(ents) || len(names) != len(ents) || len(texts) != len(ents) {
			bad = fmt.Sprintf("%d entries in the file, %d times / %d names / %d texts in the header", len(ents), len(times), len(names), len(texts))
		} else {
			for i, e := range ents {
				if int64(times[i]) != e.unix {
					bad = fmt.Sprintf("entry %d (%s): CHANGELOGTIME %d, the entry is dated %s (%d)", i+1, e.semver, times[i], e.date, e.unix)
				} else if names[i] != e.packager+" - "+e.semver {
					bad = fmt.Sprintf("entry %d: CHANGELOGNAME %q, the entry states packager %q and version %q", i+1, names[i], e.packager, e.semver)
				}
				for _, n := range e.notes {
					if !strings.Contains(texts[i], n) {
						bad = fmt.Sprintf("entry %d (%s): CHANGELOGTEXT %q lacks the note %q", i+1, e.semver, texts[i], n)
					}
				}
			}
		}
		if bad != "" {
			c.Rep.Find(report.Finding{Property: "C02", Family: fam.Name, Shape: "rpm:changelog-entries-differ-from-file:" + name, What: bad, Input: in})
		}
	}
}

func c02YAMLRoute(c *Ctx, r *rng.R) error {
	fam := c.Rep.Family("yaml-route", "random metadata (generator of the metadata family, plus format-specific lists that differ between deb and ipk; every second document with an override block per format that restates `depends` only) written as a YAML document, nfpm.Parse, Config.Get(format) x 5 formats: every leaf of the Info the packager is handed vs the leaf the document states (after WithDefaults; expandable relation lists trimmed, empty items dropped); one evaluation per (document, format); non-trivial = the document parses")
	trim := func(l []string) []string {
		var out []string
		for _, x := range l {
			if t := strings.TrimSpace(x); t != "" {
				out = append(out, t)
			}
		}
		return out
	}
	n := c.N(60, 1500)
	for i := 0; i < n; i++ {
		seed := r.U64()
		mk := func() *nfpm.Info {
			info := (&PkgSpec{Umask: 0o022, MTime: 1700000000}).Info()
			rr := rng.New(seed)
			genMetaInfo(rr, info)
			// format-specific lists that must not leak into each other
			info.Deb.Predepends = append([]string{"deb-only-pre"}, genRelList(rr)...)
			info.IPK.Predepends = append([]string{"ipk-only-pre"}, genRelList(rr)...)
			info.Deb.Breaks = append(info.Deb.Breaks, "deb-only-break (<< 2)")
			info.IPK.Tags = append(info.IPK.Tags, "ipk-only-tag")
			return info
		}
		stated := mk()
		dollar := false
		for _, l := range infoLeaves(stated) {
			if strings.Contains(l.S, "$") || strings.Contains(strings.Join(l.L, " "), "$") {
				dollar = true
			}
		}
		if dollar {
			continue
		}
		// every second document carries an override block per format that restates one list only: everything the block
		// does not mention must come through from the base settings
		withOverrides := i%2 == 1
		outCfg := nfpm.Config{Info: *stated}
		if withOverrides {
			outCfg.Overrides = map[string]*nfpm.Overridables{}
			for _, f := range Formats {
				outCfg.Overrides[f] = &nfpm.Overridables{Depends: []string{"only-for-" + f}}
			}
		}
		doc, err := yaml.Marshal(outCfg)
		if err != nil {
			return fmt.Errorf("yaml-route: marshal: %w", err)
		}
		cfg, perr := nfpm.Parse(bytes.NewReader(doc))
		for _, f := range Formats {
			key := fmt.Sprintf("%s|%d", f, seed)
			if perr != nil {
				fam.Eval(key, false)
				fam.Count("parse-error")
				continue
			}
			got, gerr := cfg.Get(f)
			if gerr != nil {
				fam.Eval(key, false)
				fam.Count("get-error")
				continue
			}
			want := mk()
			want.Replaces, want.Provides, want.Depends = trim(want.Replaces), trim(want.Provides), trim(want.Depends)
			want.Recommends, want.Suggests, want.Conflicts = trim(want.Recommends), trim(want.Suggests), trim(want.Conflicts)
			if withOverrides {
				want.Depends = []string{"only-for-" + f}
			}
			nfpm.WithDefaults(want)
			fam.Eval(key, true)
			fam.Count(f)
			gl, wl := map[string]leaf{}, map[string]leaf{}
			for _, l := range infoLeaves(got) {
				gl[l.Path] = l
			}
			for _, l := range infoLeaves(want) {
				wl[l.Path] = l
			}
			var paths []string
			for p := range wl {
				paths = append(paths, p)
			}
			for p := range gl {
				if _, ok := wl[p]; !ok {
					paths = append(paths, p)
				}
			}
			sort.Strings(paths)
			for _, p := range paths {
				g, w := gl[p], wl[p]
				same := g.S == w.S && g.N == w.N && g.B == w.B && len(g.L) == len(w.L)
				for k := 0; same && k < len(g.L); k++ {
					same = g.L[k] == w.L[k]
				}
				if same {
					continue
				}
				c.Rep.Find(report.Finding{Property: "C02", Family: "yaml-route", Shape: f + ":parsed-configuration-differs-from-document:" + p,
					What:  fmt.Sprintf("the document states %s = %q %q %d %v; after nfpm.Parse and Config.Get(%s) the packager is handed %q %q %d %v", p, w.S, w.L, w.N, w.B, f, g.S, g.L, g.N, g.B),
					Input: map[string]any{"case_seed": seed, "format": f, "leaf": p, "document": string(doc)}})
				break
			}
		}
		if len(fam.Samples) < 2 {
			fam.Sample(map[string]any{"case_seed": seed, "document_bytes": len(doc)})
		}
	}
	return nil
}
