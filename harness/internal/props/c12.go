package props

import (
	"bytes"
	"context"
	"encoding/json"
	"fmt"
	"io"
	"os"
	"os/exec"
	"path/filepath"
	"regexp"
	"runtime"
	"strconv"
	"strings"
	"sync"
	"time"

	"github.com/goreleaser/nfpm/v2"
	"verif/harness/internal/report"
	"verif/harness/internal/rng"
)

// DefaultNoticer is nfpm's own deprecation notice writer as the process started with it (set by the harness main).
var DefaultNoticer io.Writer

func init() {
	Registry["C12"] = runC12
	Registry["C12child"] = runC12Child
	Registry["C12plain"] = runC12Plain
}

// the harness source directory and the model driver, relative to the running harness binary
// (<verif>/harness/bin/harness), so that a copy of /verif checks the tree it was pointed at
var (
	c12HarnessDir = func() string {
		if exe, err := os.Executable(); err == nil {
			if d := filepath.Dir(filepath.Dir(exe)); fileExists(filepath.Join(d, "go.mod")) {
				return d
			}
		}
		return "/verif/harness"
	}()
	c12Driver = filepath.Join(c12HarnessDir, "..", "lean", ".lake", "build", "bin", "driver")
)

func fileExists(p string) bool { _, err := os.Stat(p); return err == nil }

const (
	c12VarA = "A:five-formats-from-one-parsed-configuration"
	c12VarB = "B:independently-parsed-configurations"
)

// c12VariantA packages the five formats concurrently from ONE parsed
// configuration; every goroutine does its own packaging step (own Get).
func c12VariantA(cfg *nfpm.Config, delays []time.Duration) []isoResult {
	res := make([]isoResult, len(Formats))
	var wg sync.WaitGroup
	start := make(chan struct{})
	for i, f := range Formats {
		wg.Add(1)
		go func(i int, f string) {
			defer wg.Done()
			<-start
			time.Sleep(delays[i])
			res[i] = isoPackage(cfg, f)
		}(i, f)
	}
	close(start)
	wg.Wait()
	return res
}

// c12VariantB: n goroutines, each parses its own configuration from the same
// text and packages all formats (starting at a rotated position).
func c12VariantB(y string, n int, delays []time.Duration, rot []int) [][]isoResult {
	res := make([][]isoResult, n)
	var wg sync.WaitGroup
	start := make(chan struct{})
	for g := 0; g < n; g++ {
		res[g] = make([]isoResult, len(Formats))
		wg.Add(1)
		go func(g int) {
			defer wg.Done()
			<-start
			time.Sleep(delays[g])
			cfg, err := isoParse(y)
			if err != nil {
				for i := range res[g] {
					res[g][i] = isoResult{Err: "parse: " + err.Error()}
				}
				return
			}
			for k := range Formats {
				i := (k + rot[g]) % len(Formats)
				res[g][i] = isoPackage(cfg, Formats[i])
			}
		}(g)
	}
	close(start)
	wg.Wait()
	return res
}

func c12Delay(r *rng.R) time.Duration { return time.Duration(r.Intn(301)) * time.Microsecond }

// c12Workload: for nCfg configurations and `rounds` rounds, both variants against the sequential results.
func c12Workload(c *Ctx, fam *report.Family, r *rng.R, nCfg, rounds int) error {
	if c.Repo != "" {
		isoChangelogSource = filepath.Join(c.Repo, "testdata", "changelog.yaml")
	}
	tree, err := MkTree(filepath.Join(c.Tmp, "src-"+fam.Name), 0)
	if err != nil {
		return err
	}
	scripts := filepath.Join(c.Tmp, "scripts-"+fam.Name)
	prevProcs := runtime.GOMAXPROCS(0)
	defer runtime.GOMAXPROCS(prevProcs)
	noted := map[string]bool{}
	// cold start: the very first packagings of this process run concurrently, before anything was packaged
	// sequentially – state that is initialised lazily on first use is then initialised under contention
	yCold := isoDenseConfigYAML(tree, scripts)
	runtime.GOMAXPROCS(16)
	// … and next to them goroutines that only look packagers up – by format name, by the extension a target file name
	// ends in (what the command's guess from the target does), by names that are not registered: the registry is read
	// by every packaging
	var lookups sync.WaitGroup
	for g := 0; g < 4; g++ {
		lookups.Add(1)
		go func(g int) {
			defer lookups.Done()
			names := []string{"zst", "deb", "rpm", "pkg.tar.zst", "apk", "ipk", "archlinux", "nope", "tar.zst"}
			for i := 0; i < 300; i++ {
				_, _ = nfpm.Get(names[(i+g)%len(names)])
				if i%10 == 0 {
					_ = nfpm.Enumerate()
				}
			}
		}(g)
	}
	coldRes := c12VariantB(yCold, 4, make([]time.Duration, 4), []int{0, 1, 2, 3})
	lookups.Wait()
	fam.Distribution["goroutine-launches"] += 4
	fam.Count("cold-start")
	if coldCfg, err := isoParse(yCold); err == nil {
		for i, f := range Formats {
			want := isoPackage(coldCfg, f)
			for g := 0; g < 4; g++ {
				fam.Eval(fmt.Sprintf("cold|B%d|%s", g, f), true)
				if !coldRes[g][i].equal(want) {
					c.Rep.Find(report.Finding{Property: "C12", Family: fam.Name, Shape: "concurrent-result-differs:" + f + ":cold",
						What:  fmt.Sprintf("the %s package built in goroutine %d of 4 as the first packaging of the process: %s", f, g, isoDescribeDiff(coldRes[g][i], want)),
						Input: map[string]any{"yaml": yCold, "variant": c12VarB, "gomaxprocs": 16, "round": "cold start"}})
				}
			}
		}
	}
	// signed packages with different keys and key ids; one large file per package
	c12Signed(c, fam, tree, 3*rounds)
	c12LargePayload(c, fam, (rounds+3)/4)
	for k := 0; k < nCfg; k++ {
		y := genIsoConfigYAML(r, tree, scripts)
		if k == 0 {
			y = isoDenseConfigYAML(tree, scripts)
		}
		if k == 1 {
			// no override block but for deb: the other formats are handed the settings without a merge (maps and slices
			// of the configuration itself if Get ever stops copying), while Get("deb") walks the configuration
			y = isoPlainConfigYAML(tree, scripts) + "overrides:\n  deb:\n    depends: [only-deb]\n"
		}
		if k == 2 {
			// no maintainer: deb and ipk fall back to a default and say so on the process-wide notice writer, from every
			// goroutine that packages one of them
			y = strings.Replace(isoPlainConfigYAML(tree, scripts), "maintainer: \"Verif <verif@example.com>\"\n", "", 1)
		}
		isoCountFeatures(fam, y)
		key := isoKey(y)
		for round := 0; round < rounds; round++ {
			// sequential results: five packaging steps on a freshly parsed copy
			seqCfg, err := isoParse(y)
			if err != nil {
				c.Rep.Note("generator: configuration does not parse: %v\n%s", err, y)
				break
			}
			seq := map[string]isoResult{}
			for _, f := range Formats {
				seq[f] = isoPackage(seqCfg, f)
			}
			isoCheckBaselines(c, y, seq, noted)
			procs := rng.Pick(r, []int{2, 4, 16})
			runtime.GOMAXPROCS(procs)
			fam.Count(fmt.Sprintf("gomaxprocs:%d", procs))

			// variant A
			cfg, err := isoParse(y)
			if err != nil {
				break
			}
			delays := make([]time.Duration, len(Formats))
			for i := range delays {
				delays[i] = c12Delay(r)
			}
			resA := c12VariantA(cfg, delays)
			fam.Distribution["goroutine-launches"] += len(Formats)
			for i, f := range Formats {
				fam.Eval(fmt.Sprintf("%s|%d|A|%s", key, round, f), true)
				if !resA[i].equal(seq[f]) {
					c.Rep.Find(report.Finding{Property: "C12", Family: fam.Name, Shape: "concurrent-result-differs:" + f + ":A",
						What:  "the " + f + " package built concurrently with the other four formats from one parsed configuration: " + isoDescribeDiff(resA[i], seq[f]),
						Input: map[string]any{"yaml": y, "variant": c12VarA, "gomaxprocs": procs, "round": round}})
				}
			}

			// variant B
			n := 2 + r.Intn(3)
			delaysB := make([]time.Duration, n)
			rot := make([]int, n)
			for g := 0; g < n; g++ {
				delaysB[g] = c12Delay(r)
				rot[g] = r.Intn(len(Formats))
			}
			resB := c12VariantB(y, n, delaysB, rot)
			fam.Distribution["goroutine-launches"] += n
			for g := 0; g < n; g++ {
				for i, f := range Formats {
					fam.Eval(fmt.Sprintf("%s|%d|B%d|%s", key, round, g, f), true)
					if !resB[g][i].equal(seq[f]) {
						c.Rep.Find(report.Finding{Property: "C12", Family: fam.Name, Shape: "concurrent-result-differs:" + f + ":B",
							What:  fmt.Sprintf("the %s package built in goroutine %d of %d (each with its own parsed configuration): %s", f, g, n, isoDescribeDiff(resB[g][i], seq[f])),
							Input: map[string]any{"yaml": y, "variant": c12VarB, "gomaxprocs": procs, "round": round, "goroutines": n}})
					}
				}
			}
		}
		if len(fam.Samples) < 1 {
			fam.Sample(map[string]any{"yaml": y})
		}
	}
	// many packagings of ONE format at once (a release tool building every architecture of a package): far more than
	// there are processors – a bound on concurrency inside a packager must not turn into a wait for itself. Last, because
	// packagings that never come back stay behind and may hold whatever they wait on.
	c12ManyOfOneFormat(c, fam, tree, scripts)
	return nil
}

func c12EnvInt(name string, def int) int {
	if v, err := strconv.Atoi(os.Getenv(name)); err == nil && v > 0 {
		return v
	}
	return def
}

// runC12Child is the workload the race-detector build runs.
func runC12Child(c *Ctx) error {
	nCfg, rounds := c12EnvInt("C12_CONFIGS", 6), c12EnvInt("C12_ROUNDS", 8)
	fam := c.Rep.Family("race-detector", fmt.Sprintf("workload under the race detector: %d generated configurations x %d rounds; variant A: the five formats concurrently from one parsed configuration; variant B: 2..4 goroutines, each parsing its own configuration and packaging all formats; random start offsets 0..300us, GOMAXPROCS in {2,4,16}; the first packagings of the process run concurrently (cold start) before anything is packaged sequentially; every result compared with the sequential one; plus signed deb (debsign, dpkg-sig) and rpm packages with three keys / key ids from 8 goroutines (compared on success and on the issuer key id of every signature - signatures are not byte-reproducible); plus one 3 MiB file packaged in all formats from 8 goroutines under GOMAXPROCS 4 and 2 (byte-compared)", nCfg, rounds))
	return c12Workload(c, fam, c.R.Fork("c12-race"), nCfg, rounds)
}

// ---- race report parsing ----

type c12Race struct{ Shape, Text, Variant string }

const c12NfpmPath = "github.com/goreleaser/nfpm/v2"

func c12ShortFunc(line string) string {
	fn := strings.TrimSpace(line)
	fn = strings.TrimSuffix(fn, "()")
	i := strings.Index(fn, c12NfpmPath)
	if i < 0 {
		return fn
	}
	fn = fn[i+len(c12NfpmPath):]
	switch {
	case strings.HasPrefix(fn, "/"):
		return fn[1:]
	case strings.HasPrefix(fn, "."):
		return "nfpm" + fn
	}
	return fn
}

func c12ParseRaces(stderr string) []c12Race {
	var res []c12Race
	for _, block := range strings.Split(stderr, "==================") {
		at := strings.Index(block, "WARNING: DATA RACE")
		if at < 0 {
			continue
		}
		block = block[at:]
		lines := strings.Split(strings.TrimRight(block, "\n"), "\n")
		shape := ""
		inAccess := false
		for _, l := range lines {
			switch {
			case strings.HasPrefix(l, "Write at "), strings.HasPrefix(l, "Read at "), strings.HasPrefix(l, "Previous write at "),
				strings.HasPrefix(l, "Previous read at "), strings.HasPrefix(l, "Atomic "), strings.HasPrefix(l, "Previous atomic "):
				inAccess = true
			case strings.HasPrefix(l, "Goroutine "), strings.HasPrefix(l, "Location "), strings.HasPrefix(l, "Mutex "):
				inAccess = false
			case inAccess && shape == "" && strings.HasPrefix(l, "  ") && !strings.HasPrefix(l, "   ") && strings.Contains(l, "github.com/goreleaser/nfpm"):
				shape = c12ShortFunc(l)
			}
		}
		if shape == "" {
			shape = "unknown"
		}
		variant := "unknown"
		switch {
		case strings.Contains(block, "c12VariantA"):
			variant = c12VarA
		case strings.Contains(block, "c12VariantB"):
			variant = c12VarB
		}
		if len(lines) > 25 {
			lines = lines[:25]
		}
		res = append(res, c12Race{Shape: "data-race:" + shape, Text: strings.Join(lines, "\n"), Variant: variant})
	}
	return res
}

func c12Env(extra ...string) []string {
	drop := map[string]bool{}
	for _, e := range extra {
		drop[strings.SplitN(e, "=", 2)[0]] = true
	}
	var env []string
	for _, e := range os.Environ() {
		if !drop[strings.SplitN(e, "=", 2)[0]] {
			env = append(env, e)
		}
	}
	return append(env, extra...)
}

// runC12Plain is the workload of family concurrent-equals-sequential, run in a process of its own: unsynchronised
// access to shared memory can end in a fatal runtime error (concurrent map read and map write) that no recover
// catches, and that outcome must be reported with its input, not lose the run.
func runC12Plain(c *Ctx) error {
	fam := c.Rep.Family("concurrent-equals-sequential", "child process")
	return c12Workload(c, fam, c.R.Fork("c12-inproc"), c12EnvInt("C12_CONFIGS", 6), c12EnvInt("C12_ROUNDS", 8))
}

var c12Fatal = regexp.MustCompile(`(?m)^(fatal error: .*|panic: .*)$`)

func runC12(c *Ctx) error {
	// (0) the command as concurrent processes
	c12ConcurrentCLI(c)
	// (1) without the race detector, in a child process of this very binary
	fam := c.Rep.Family("concurrent-equals-sequential", "in a child process of the harness (no race detector; a fatal runtime error of the child - concurrent map access, say - is a finding with the child's seed as replay): generated configurations x rounds; variant A: the five formats concurrently from one parsed configuration (each goroutine its own Get/WithDefaults/Package); variant B: 2..4 goroutines, each parsing its own configuration and packaging all formats; random start offsets 0..300us, GOMAXPROCS in {2,4,16}; every result byte-compared with the result of five sequential packagings of a freshly parsed configuration; plus signed deb (debsign, dpkg-sig) and rpm packages with three keys / key ids from 8 goroutines (compared on success and on the issuer key id of every signature - signatures are not byte-reproducible); plus one 3 MiB file packaged in all formats from 8 goroutines under GOMAXPROCS 4 and 2 (byte-compared); non-trivial = every compared package")
	{
		self, err := os.Executable()
		if err != nil {
			return err
		}
		childOut := filepath.Join(c.Tmp, "plain-child.json")
		ctxP, cancelP := context.WithTimeout(context.Background(), time.Duration(c.N(8, 40))*time.Minute)
		defer cancelP()
		run := exec.CommandContext(ctxP, self, "-prop", "C12plain", "-tier", c.Tier, "-seed", strconv.FormatUint(c.Seed, 10),
			"-out", childOut, "-driver", c12Driver, "-replays", filepath.Join(c.Tmp, "plain-child-replays"), "-repo", c.Repo)
		run.Env = c12Env(fmt.Sprintf("C12_CONFIGS=%d", c.N(6, 40)), fmt.Sprintf("C12_ROUNDS=%d", c.N(8, 25)))
		var stderr bytes.Buffer
		run.Stderr = &stderr
		runErr := run.Run()
		how := "harness -prop C12plain -tier " + c.Tier + " -seed " + strconv.FormatUint(c.Seed, 10)
		if runErr != nil && (ctxP.Err() != nil || c12Fatal.FindString(stderr.String()) == "") {
			// a time-out under load, or an exit that is not a Go runtime failure: a fact about this run, not about nfpm
			c.Rep.Note("concurrent-equals-sequential child: %v (time-out: %v); stderr tail: %.400s", runErr, ctxP.Err() != nil, stderr.String())
		} else if runErr != nil {
			msg := stderr.String()
			head := c12Fatal.FindString(msg)
			// the first nfpm frame of the crashing goroutine names the place
			place := ""
			for _, ln := range strings.Split(msg, "\n") {
				if strings.Contains(ln, c12NfpmPath) && !strings.Contains(ln, "verif/harness") && strings.Contains(ln, "(") {
					place = c12ShortFunc(strings.SplitN(strings.TrimSpace(ln), "(", 2)[0])
					break
				}
			}
			tail := msg
			if len(tail) > 3000 {
				tail = tail[:3000]
			}
			c.Rep.Find(report.Finding{Property: "C12", Family: "concurrent-equals-sequential", Shape: "process-crash:" + place,
				What:  "packaging concurrently brought the process down: " + head,
				Input: map[string]any{"how": how, "stderr_head": tail}})
		}
		if b, err := os.ReadFile(childOut); err == nil {
			var child report.Report
			if json.Unmarshal(b, &child) == nil {
				for _, cf := range child.Families {
					fam.Evaluations += cf.Evaluations
					fam.Nontrivial += cf.Nontrivial
					for k, v := range cf.Distribution {
						fam.Distribution[k] += v
					}
					for _, s := range cf.Samples {
						fam.Sample(s)
					}
				}
				for _, f := range child.Findings {
					f.Replay = ""
					c.Rep.Find(f)
				}
				for _, d := range child.Disagreements {
					c.Rep.Disagree(d)
				}
				for _, n := range child.Notes {
					c.Rep.Note("concurrent-equals-sequential child: %s", n)
				}
			}
		} else if runErr == nil {
			c.Rep.Note("concurrent-equals-sequential child wrote no report: %v", err)
		}
	}

	// (2) the same workload in a build with the race detector
	fam2 := c.Rep.Family("race-detector", "the harness itself built with `go build -race` and run as a subprocess on the same workload (GORACE halt_on_error=0): every DATA RACE report whose accesses lie in nfpm code is a finding, named after the first nfpm function of the racing accesses; the subprocess's own result comparisons are merged; non-trivial = every compared package of the subprocess")
	bin := filepath.Join(c.Tmp, "harness-race")
	ctx, cancel := context.WithTimeout(context.Background(), 10*time.Minute)
	defer cancel()
	build := exec.CommandContext(ctx, "go", "build", "-race", "-o", bin, "./cmd/harness")
	build.Dir = c12HarnessDir
	build.Env = c12Env("GOFLAGS=-mod=mod", "GOPROXY=off", "GOSUMDB=off", "GOTOOLCHAIN=local", "CGO_ENABLED=1")
	t0 := time.Now()
	if out, err := build.CombinedOutput(); err != nil {
		msg := strings.TrimSpace(string(out))
		if len(msg) > 600 {
			msg = msg[:600] + "…"
		}
		c.Rep.Note("race build unavailable: %v: %s", err, msg)
		return nil
	}
	fam2.Distribution["race-build-seconds"] = int(time.Since(t0).Seconds())
	childOut := filepath.Join(c.Tmp, "child.json")
	ctx2, cancel2 := context.WithTimeout(context.Background(), time.Duration(c.N(8, 40))*time.Minute)
	defer cancel2()
	run := exec.CommandContext(ctx2, bin, "-prop", "C12child", "-tier", c.Tier, "-seed", strconv.FormatUint(c.Seed, 10),
		"-out", childOut, "-driver", c12Driver, "-replays", filepath.Join(c.Tmp, "child-replays"), "-repo", c.Repo)
	run.Env = c12Env("GORACE=halt_on_error=0 exitcode=0", fmt.Sprintf("C12_CONFIGS=%d", c.N(6, 30)), fmt.Sprintf("C12_ROUNDS=%d", c.N(8, 30)))
	var stderr bytes.Buffer
	run.Stderr = &stderr
	t1 := time.Now()
	runErr := run.Run()
	fam2.Distribution["race-run-seconds"] = int(time.Since(t1).Seconds())
	if runErr != nil {
		tail := stderr.String()
		if len(tail) > 800 {
			tail = tail[len(tail)-800:]
		}
		c.Rep.Note("race-detector subprocess: %v; stderr tail: %s", runErr, tail)
	}
	races := c12ParseRaces(stderr.String())
	fam2.Distribution["race-reports"] = len(races)
	seen := map[string]bool{}
	for _, rc := range races {
		fam2.Count(rc.Shape)
		if seen[rc.Shape] {
			continue
		}
		seen[rc.Shape] = true
		c.Rep.Find(report.Finding{Property: "C12", Family: "race-detector", Shape: rc.Shape, What: rc.Text,
			Input: map[string]any{"variant": rc.Variant, "how": "go build -race ./cmd/harness; harness-race -prop C12child -tier " + c.Tier + " -seed " + strconv.FormatUint(c.Seed, 10)}})
	}
	// merge the subprocess's report
	b, err := os.ReadFile(childOut)
	if err != nil {
		c.Rep.Note("race-detector subprocess wrote no report: %v", err)
		return nil
	}
	var child report.Report
	if err := json.Unmarshal(b, &child); err != nil {
		c.Rep.Note("race-detector subprocess report unreadable: %v", err)
		return nil
	}
	for _, cf := range child.Families {
		fam2.Evaluations += cf.Evaluations
		fam2.Nontrivial += cf.Nontrivial
		for k, v := range cf.Distribution {
			fam2.Distribution[k] += v
		}
		for _, s := range cf.Samples {
			fam2.Sample(s)
		}
	}
	for _, f := range child.Findings {
		f.Replay = ""
		c.Rep.Find(f)
	}
	for _, n := range child.Notes {
		c.Rep.Note("race-detector subprocess: %s", n)
	}
	return nil
}
