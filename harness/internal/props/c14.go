package props

import (
	"fmt"
	"os/exec"
	"strconv"
	"strings"

	"github.com/Masterminds/semver/v3"
	"github.com/goreleaser/nfpm/v2"
	"verif/harness/internal/report"
	"verif/harness/internal/rng"
	"verif/harness/internal/wire"
)

func init() { Registry["C14"] = runC14; Registry["C15"] = runC15 }

var preIdents = []string{"alpha", "rc", "1", "0", "beta-1", "x-y-z", "0a", "a0", "-", "rc1", "10", "SNAPSHOT", "dev-5"}
var metaIdents = []string{"git", "5", "abc-def", "001", "sha", "5114f85", "p1", "20240101"}

func genNum(r *rng.R) string {
	switch r.Intn(8) {
	case 0:
		return "0"
	case 1:
		return "18446744073709551615"
	case 2:
		return strconv.Itoa(r.Intn(100000))
	default:
		return strconv.Itoa(r.Intn(30))
	}
}

func genIdents(r *rng.R, pool []string) string {
	n := 1 + r.Intn(3)
	parts := make([]string, n)
	for i := range parts {
		parts[i] = rng.Pick(r, pool)
	}
	return strings.Join(parts, ".")
}

// genVersion: grammar-generated semantic versions (valid) or near-misses.
func genVersion(r *rng.R) (s string, kind string) {
	if r.Chance(1, 4) {
		near := []string{"01.2.3", "1.02.3", "1.2.3.4", "1.2.3-", "1.2.3-a..b", "1.2.3+", "1.2.3-a_b", "v", "", "1.2.3 ", " 1.2.3",
			"1.2.3-01", "18446744073709551616.0.0", "1.18446744073709551616", "1.2.3-rc+", "1.2.3+a+b", "1..2", "1.2.", "x1.2.3", "1.2.3-é",
			"1.2.3~rc1", "1,2,3", "1.2.3-rc.01", "V1.2.3", "1.2.3+meta..x", "-1.2.3", "1.2.3-rc 1", "latest", "1.0.0-0.3.7", "00.1.2"}
		return rng.Pick(r, near), "near-miss"
	}
	var b strings.Builder
	if r.Chance(1, 3) {
		b.WriteString("v")
	}
	b.WriteString(genNum(r))
	parts := r.Intn(3)
	for i := 0; i < parts; i++ {
		b.WriteString("." + genNum(r))
	}
	if r.Chance(1, 2) {
		b.WriteString("-" + genIdents(r, preIdents))
	}
	if r.Chance(1, 3) {
		b.WriteString("+" + genIdents(r, metaIdents))
	}
	return b.String(), "grammar"
}

var dpkgPath, _ = exec.LookPath("dpkg")

func dpkgLess(a, b string) (bool, bool) {
	if dpkgPath == "" {
		return false, false
	}
	err := exec.Command(dpkgPath, "--compare-versions", a, "lt", b).Run()
	if err == nil {
		return true, true
	}
	if ee, ok := err.(*exec.ExitError); ok && ee.ExitCode() == 1 {
		return false, true
	}
	return false, false
}

// buildMeta builds a content-less package of one format and returns its metadata.
func buildMeta(format string, mut func(*nfpm.Info)) (PkgMeta, *Decoded, error) {
	s := &PkgSpec{Umask: 0o022, MTime: 1700000000, Mutate: mut}
	data, err := BuildPkg(format, s.Info())
	if err != nil {
		return PkgMeta{}, nil, err
	}
	dec, err := DecodePkg(format, data)
	if err != nil {
		return PkgMeta{}, nil, err
	}
	return metaOf(dec), dec, nil
}

// buildMetaNamed is buildMeta the way `nfpm package` with a directory target does it: the conventional file name is
// asked of the very Info that is packaged next.
func buildMetaNamed(format string, mut func(*nfpm.Info)) (PkgMeta, error) {
	s := &PkgSpec{Umask: 0o022, MTime: 1700000000, Mutate: mut}
	info := s.Info()
	if p, err := nfpm.Get(format); err == nil {
		_ = p.ConventionalFileName(info)
	}
	data, err := BuildPkg(format, info)
	if err != nil {
		return PkgMeta{}, err
	}
	dec, err := DecodePkg(format, data)
	if err != nil {
		return PkgMeta{}, err
	}
	return metaOf(dec), nil
}

type verCase struct {
	Version, Schema, Pre, Meta, Release, Epoch string
}

func genVerCase(r *rng.R) verCase {
	v, _ := genVersion(r)
	c := verCase{Version: v}
	if r.Chance(1, 6) {
		c.Schema = rng.Pick(r, []string{"none", "semver", "bogus"})
	}
	if r.Chance(1, 4) {
		c.Pre = rng.Pick(r, []string{"rc1", "beta-2", "alpha.1", "0"})
		// an explicit component is the packager's own string, not a semver identifier: values the semver grammar
		// refuses (underscore, tilde, leading zero, empty identifier, blank, non-ASCII) take precedence all the same
		if r.Chance(1, 3) {
			c.Pre = rng.Pick(r, []string{"beta_1", "pre~2", "01", "2024.01.15~git", "rc 1", "a..b", "rc1+x", "\u00e9", ".", "1.02"})
		}
	}
	if r.Chance(1, 5) {
		c.Meta = rng.Pick(r, []string{"git", "build.5", "p7", "git-abc123", "2024-01-02"})
		if r.Chance(1, 3) {
			c.Meta = rng.Pick(r, []string{"git_abc", "a+b", "b..c", "build 5", "~1", "\u00fc", "x/y"})
		}
	}
	if r.Chance(1, 2) {
		c.Release = rng.Pick(r, []string{"1", "2", "r3", "0", "10", "x"})
	}
	if r.Chance(1, 4) {
		c.Epoch = rng.Pick(r, []string{"1", "2", "0", "10", "010", "007"})
	}
	return c
}

func (c verCase) apply(info *nfpm.Info) {
	info.Version, info.VersionSchema, info.Prerelease, info.VersionMetadata = c.Version, c.Schema, c.Pre, c.Meta
	info.Release, info.Epoch = c.Release, c.Epoch
}

func (c verCase) in() map[string]any {
	return map[string]any{"version": c.Version, "version_schema": c.Schema, "prerelease": c.Pre, "version_metadata": c.Meta, "release": c.Release, "epoch": c.Epoch}
}

func runC14(c *Ctx) error {
	r := c.R.Fork("c14")
	// --- family semver: the recogniser against Masterminds NewVersion
	fam := c.Rep.Family("semver", "version strings generated from the semver grammar ('v' prefix, 1-3 numeric parts incl. uint64 limits, prerelease and metadata identifiers) and a near-miss stream (leading zeros, 4 parts, empty identifiers, >uint64, bad characters); model recogniser vs Masterminds NewVersion; non-trivial = carries prerelease or metadata or is rejected")
	n := c.N(4000, 200000)
	var strs []string
	var reqs []string
	for i := 0; i < n; i++ {
		s, kind := genVersion(r)
		strs = append(strs, s)
		reqs = append(reqs, "semver "+wire.H(s))
		fam.Count(kind)
	}
	ans, err := c.D.Batch(reqs)
	if err != nil {
		return err
	}
	for i, s := range strs {
		v, e := semver.NewVersion(s)
		want := "none"
		if e == nil {
			want = fmt.Sprintf("ok %s %s %s %s %s", wire.H(strconv.FormatUint(v.Major(), 10)), wire.H(strconv.FormatUint(v.Minor(), 10)),
				wire.H(strconv.FormatUint(v.Patch(), 10)), wire.H(v.Prerelease()), wire.H(v.Metadata()))
		}
		fam.Eval(s, e != nil || v.Prerelease() != "" || v.Metadata() != "")
		if ans[i] != want {
			c.Rep.Disagree(report.Disagreement{Family: "semver", What: "semver.NewVersion vs model recogniser", Input: map[string]any{"version": s}, Model: ans[i], Impl: want})
		}
	}
	fam.Sample(map[string]any{"version": strs[0], "model": ans[0]})
	// --- family defaults: nfpm.WithDefaults split + spec (lossless)
	fam2 := c.Rep.Family("with-defaults", "nfpm.WithDefaults on generated (version, schema, explicit prerelease/metadata): model vs implementation, and the lossless-split spec (semver-parsable => version = M.m.p, explicit components win, nothing lost or duplicated; schema none or unparsable => verbatim); non-trivial = version parses")
	m := c.N(3000, 100000)
	for i := 0; i < m; i++ {
		vc := genVerCase(r)
		info := &nfpm.Info{}
		vc.apply(info)
		nfpm.WithDefaults(info)
		vi := VInfo{Version: vc.Version, Schema: vc.Schema, Prerelease: vc.Pre, Metadata: vc.Meta}
		a, err := c.D.Ask("vdefaults " + vi.Enc())
		if err != nil {
			return err
		}
		got := fmt.Sprintf("%s %s %s", wire.H(info.Version), wire.H(info.Prerelease), wire.H(info.VersionMetadata))
		sv, perr := semver.NewVersion(vc.Version)
		fam2.Eval(fmt.Sprint(vc), perr == nil)
		if a != got {
			c.Rep.Disagree(report.Disagreement{Family: "with-defaults", What: "nfpm.WithDefaults version split", Input: vc.in(), Model: a, Impl: got})
		}
		// spec, evaluated on the implementation's result with the library as parser oracle
		verbatim := vc.Schema == "none" || perr != nil
		switch {
		case vc.Version == "":
		case verbatim:
			if info.Version != vc.Version || info.Prerelease != vc.Pre || info.VersionMetadata != vc.Meta {
				c.Rep.Find(report.Finding{Property: "C14", Family: "with-defaults", Shape: "not-verbatim", What: "schema none / unparsable version was not used verbatim", Input: vc.in()})
			}
		default:
			core := fmt.Sprintf("%d.%d.%d", sv.Major(), sv.Minor(), sv.Patch())
			wantPre, wantMeta := vc.Pre, vc.Meta
			if wantPre == "" {
				wantPre = sv.Prerelease()
			}
			if wantMeta == "" {
				wantMeta = sv.Metadata()
			}
			if info.Version != core || info.Prerelease != wantPre || info.VersionMetadata != wantMeta {
				c.Rep.Find(report.Finding{Property: "C14", Family: "with-defaults", Shape: "split-lossy", What: fmt.Sprintf("split gave %q/%q/%q, want %q/%q/%q", info.Version, info.Prerelease, info.VersionMetadata, core, wantPre, wantMeta), Input: vc.in()})
			}
		}
	}
	// --- family config-route: the same split when the version reaches nfpm through a configuration file, literally
	// or through the environment (version: ${VERIF_VERSION}); what Parse hands on must be the split of the value
	// the document denotes
	fam2b := c.Rep.Family("with-defaults-config-route", "generated (version, schema, explicit prerelease/metadata, release, epoch) written as a YAML document with the version given literally or as ${VERIF_VERSION} / $VERIF_VERSION resolved by the environment mapping, nfpm.ParseWithEnvMapping: the version components of the parsed configuration vs the model of nfpm.WithDefaults applied to the denoted values; versions holding '$' are left out; one evaluation per document; non-trivial = version parses as semver")
	mb := c.N(600, 20000)
	for i := 0; i < mb; i++ {
		vc := genVerCase(r)
		if vc.Schema == "bogus" {
			vc.Schema = "" // rejected by the schema validation of the parser: not this family's subject
		}
		if vc.Version == "" || strings.ContainsAny(vc.Version+vc.Pre+vc.Meta, "$\n") {
			continue
		}
		style := r.Intn(3)
		q := func(s string) string { return strconv.Quote(s) }
		ver := q(vc.Version)
		switch style {
		case 1:
			ver = q("${VERIF_VERSION}")
		case 2:
			ver = q("$VERIF_VERSION")
		}
		doc := "name: verifpkg\narch: amd64\nplatform: linux\nversion: " + ver + "\n"
		if vc.Schema != "" {
			doc += "version_schema: " + q(vc.Schema) + "\n"
		}
		if vc.Pre != "" {
			doc += "prerelease: " + q(vc.Pre) + "\n"
		}
		if vc.Meta != "" {
			doc += "version_metadata: " + q(vc.Meta) + "\n"
		}
		if vc.Release != "" {
			doc += "release: " + q(vc.Release) + "\n"
		}
		if vc.Epoch != "" {
			doc += "epoch: " + q(vc.Epoch) + "\n"
		}
		cfg, perr := nfpm.ParseWithEnvMapping(strings.NewReader(doc), func(k string) string {
			if k == "VERIF_VERSION" {
				return vc.Version
			}
			return ""
		})
		_, serr := semver.NewVersion(vc.Version)
		in := vc.in()
		in["version_written_as"] = []string{"literal", "${VERIF_VERSION}", "$VERIF_VERSION"}[style]
		in["document"] = doc
		fam2b.Eval(doc+"|"+vc.Version, serr == nil)
		fam2b.Count(in["version_written_as"].(string))
		if perr != nil {
			fam2b.Count("parse-error")
			c.Rep.Disagree(report.Disagreement{Family: "with-defaults-config-route", What: "nfpm.ParseWithEnvMapping rejects a generated document", Input: in, Model: "accepted", Impl: perr.Error()})
			continue
		}
		vi := VInfo{Version: vc.Version, Schema: vc.Schema, Prerelease: vc.Pre, Metadata: vc.Meta}
		a, err := c.D.Ask("vdefaults " + vi.Enc())
		if err != nil {
			return err
		}
		got := fmt.Sprintf("%s %s %s", wire.H(cfg.Version), wire.H(cfg.Prerelease), wire.H(cfg.VersionMetadata))
		if a != got || cfg.Release != vc.Release || cfg.Epoch != vc.Epoch {
			c.Rep.Find(report.Finding{Property: "C14", Family: "with-defaults-config-route", Shape: "config-route:version-components-differ-from-the-split-of-the-denoted-version",
				What:  fmt.Sprintf("the document denotes version %q (prerelease %q, metadata %q, release %q, epoch %q); the parsed configuration carries version=%q prerelease=%q metadata=%q release=%q epoch=%q; model of the split: %s", vc.Version, vc.Pre, vc.Meta, vc.Release, vc.Epoch, cfg.Version, cfg.Prerelease, cfg.VersionMetadata, cfg.Release, cfg.Epoch, a),
				Input: in})
		}
	}
	// --- family verbatim: schema none / unparsable versions inside real packages
	famV := c.Rep.Family("verbatim-in-package", "exhaustive: versions that are used verbatim (schema none with semver-shaped and date-shaped strings, and strings that do not parse) x {no release, release 2} x deb, ipk, rpm: the version stated inside the real package must be the configured string, character for character (deb/ipk: between the optional epoch and the optional -release; rpm: the VERSION tag); non-trivial = always")
	famV.Exhaustive = true
	for _, vs := range []struct{ version, schema string }{{"2024-01-15", "none"}, {"1.2.3-rc1+b7", "none"}, {"1.2.3.4-hotfix", ""}, {"v1_x", ""}, {"20240115", "none"}, {"1.0-2-3", "none"}, {"2:1.5.0", ""}, {"2:1.5.0", "none"}, {"007:1", ""}} {
		for _, rel := range []string{"", "2"} {
			for _, f := range []string{"deb", "ipk", "rpm"} {
				vs, rel, f := vs, rel, f
				in := map[string]any{"format": f, "version": vs.version, "version_schema": vs.schema, "release": rel}
				pm, _, err := buildMeta(f, func(i *nfpm.Info) {
					i.Version, i.VersionSchema, i.Release = vs.version, vs.schema, rel
					i.Prerelease, i.VersionMetadata = "", ""
					nfpm.WithDefaults(i)
				})
				famV.Eval(fmt.Sprint(in), true)
				famV.Count(f)
				if err != nil {
					famV.Count(f + ":build-error")
					continue
				}
				want := vs.version
				got := pm.Version
				if f != "rpm" && rel != "" {
					want += "-" + rel
				}
				if f == "rpm" && pm.Epoch != "" && pm.Epoch != "0" {
					c.Rep.Find(report.Finding{Property: "C14", Family: "verbatim-in-package", Shape: "rpm:epoch-out-of-a-verbatim-version",
						What: fmt.Sprintf("no epoch is configured and the version %q is to be used verbatim; the rpm states epoch %q", vs.version, pm.Epoch), Input: in})
				}
				if got != want {
					c.Rep.Find(report.Finding{Property: "C14", Family: "verbatim-in-package", Shape: f + ":verbatim-version-altered",
						What: fmt.Sprintf("the version %q is to be used verbatim (schema %q); the %s package states %q, expected %q", vs.version, vs.schema, f, got, want), Input: in})
				}
			}
		}
	}
	// --- family order: version strings inside real packages, prerelease < release
	fam3 := c.Rep.Family("ordering", "for generated semantic versions with a prerelease (x metadata x release x epoch): the version strings found inside real deb/ipk/rpm packages of the prerelease build and of the corresponding release build; model rendering vs package; prerelease must sort strictly before release under dpkg's / rpm's algorithm (model comparators; dpkg --compare-versions as oracle for the dpkg comparator when installed); numeric and epoch ordering on neighbouring versions; non-trivial = every case")
	k := c.N(60, 1500)
	for i := 0; i < k; i++ {
		core := fmt.Sprintf("%d.%d.%d", r.Intn(4), r.Intn(12), r.Intn(12))
		pre := genIdents(r, preIdents)
		meta := ""
		if r.Chance(1, 3) {
			meta = genIdents(r, metaIdents)
		}
		rel := rng.Pick(r, []string{"", "1", "2", "10"})
		epoch := rng.Pick(r, []string{"", "", "1", "3", "0"})
		// the first cases are fixed: prereleases that are numbers only (1.0.0-1 and 1.0.0-20240115 are semver
		// prereleases, not revisions) without a release, and a zero epoch next to a prerelease
		switch i {
		case 0:
			pre, meta, rel, epoch = "1", "", "", ""
		case 1:
			pre, meta, rel, epoch = "20240115", "", "", "2"
		case 2:
			pre, meta, rel, epoch = "rc1", "", "", "0"
		case 3:
			pre, meta, rel, epoch = "beta.2", "git", "3", "00"
		}
		build := func(format, pre string) (PkgMeta, VInfo, error) {
			ver := core
			if pre != "" {
				ver += "-" + pre
			}
			if meta != "" {
				ver += "+" + meta
			}
			info := &nfpm.Info{Version: ver, Release: rel, Epoch: epoch}
			nfpm.WithDefaults(info)
			vi := VInfo{Name: "verifpkg", Arch: "amd64", Epoch: epoch, Version: info.Version, Release: rel, Prerelease: info.Prerelease, Metadata: info.VersionMetadata}
			pm, _, err := buildMeta(format, func(i2 *nfpm.Info) {
				i2.Version, i2.Prerelease, i2.VersionMetadata, i2.Release, i2.Epoch = info.Version, info.Prerelease, info.VersionMetadata, rel, epoch
			})
			return pm, vi, err
		}
		for _, f := range []string{"deb", "ipk", "rpm", "apk", "archlinux"} {
			in := map[string]any{"format": f, "version": core, "prerelease": pre, "metadata": meta, "release": rel, "epoch": epoch}
			pmPre, viPre, err1 := build(f, pre)
			pmRel, _, err2 := build(f, "")
			fam3.Eval(fmt.Sprint(in), true)
			fam3.Count(f)
			if err1 != nil || err2 != nil {
				c.Rep.Note("ordering build %s: %v %v", f, err1, err2)
				continue
			}
			a, err := c.D.Ask(fmt.Sprintf("verstr %s %s", f, viPre.Enc()))
			if err != nil {
				return err
			}
			got := wire.H(pmPre.Version)
			if f == "rpm" {
				got = wire.H(pmPre.Version) + " " + wire.H(pmPre.Release)
			}
			if a != got {
				c.Rep.Disagree(report.Disagreement{Family: "ordering", What: "version field inside the " + f + " package vs model rendering", Input: in, Model: a, Impl: got})
			}
			// the file name nfpm proposes states the same major.minor.patch (an epoch never runs into it)
			if pk, kerr := nfpm.Get(f); kerr == nil {
				ni := (&PkgSpec{Umask: 0o022, MTime: 1700000000, Mutate: func(i2 *nfpm.Info) {
					i2.Version, i2.Prerelease, i2.VersionMetadata, i2.Release, i2.Epoch = viPre.Version, viPre.Prerelease, viPre.Metadata, rel, epoch
				}}).Info()
				name := pk.ConventionalFileName(ni)
				sep := map[string]string{"deb": "_", "ipk": "_", "apk": "_", "rpm": "-", "archlinux": "-"}[f]
				if !strings.HasPrefix(name, ni.Name+sep+core) {
					c.Rep.Find(report.Finding{Property: "C14", Family: "ordering", Shape: f + ":file-name-does-not-state-major-minor-patch",
						What: fmt.Sprintf("version %s (epoch %q): the conventional file name is %q; the version it states does not begin with %s right after the package name", core, epoch, name, core), Input: in})
				}
			}
			// no component duplicated: asking for the conventional file name first (the command's order for a directory
			// target) leaves the version the package states unchanged
			if pmN, nerr := buildMetaNamed(f, func(i2 *nfpm.Info) {
				i2.Version, i2.Prerelease, i2.VersionMetadata, i2.Release, i2.Epoch = viPre.Version, viPre.Prerelease, viPre.Metadata, rel, epoch
			}); nerr == nil && (pmN.Version != pmPre.Version || pmN.Release != pmPre.Release || pmN.Epoch != pmPre.Epoch) {
				c.Rep.Find(report.Finding{Property: "C14", Family: "ordering", Shape: f + ":version-differs-when-the-file-name-is-asked-first",
					What: fmt.Sprintf("the %s package states version %q release %q epoch %q; with the conventional file name asked of the same settings first: version %q release %q epoch %q (a component is lost or duplicated)", f, pmPre.Version, pmPre.Release, pmPre.Epoch, pmN.Version, pmN.Release, pmN.Epoch), Input: in})
			}
			// no component lost or altered: the build metadata is carried as written
			if meta != "" && (f == "deb" || f == "ipk" || f == "rpm") && !strings.Contains(pmPre.Version, "+"+meta) {
				c.Rep.Find(report.Finding{Property: "C14", Family: "ordering", Shape: f + ":version-metadata-not-carried-as-written",
					What: fmt.Sprintf("the configuration states build metadata %q; the %s package states version %q", meta, f, pmPre.Version), Input: in})
			}
			// … and so is the prerelease where the format's syntax has room for it as written (deb, ipk: after '~';
			// rpm writes '-' as '_' because '-' separates version and release there)
			if pre != "" && (f == "deb" || f == "ipk") && !strings.Contains(pmPre.Version, "~"+pre) {
				c.Rep.Find(report.Finding{Property: "C14", Family: "ordering", Shape: f + ":prerelease-not-carried-as-written",
					What: fmt.Sprintf("the version %s-%s has the prerelease %q; the %s package states version %q", core, pre, pre, f, pmPre.Version), Input: in})
			}
			// apk: pkgver is version, '_' and the prerelease as written (then -r<release> and the metadata, 'p'-prefixed
			// unless it already starts like one of apk's own suffixes); rpm: '~' and the prerelease with '-' as '_'
			if pre != "" && f == "apk" && !strings.Contains(pmPre.Version, "_"+pre) {
				c.Rep.Find(report.Finding{Property: "C14", Family: "ordering", Shape: "apk:prerelease-not-carried-as-written",
					What: fmt.Sprintf("the version %s-%s has the prerelease %q; the apk package states pkgver %q (two different prereleases can get the same pkgver)", core, pre, pre, pmPre.Version), Input: in})
			}
			if meta != "" && f == "apk" && !strings.Contains(pmPre.Version, "-"+meta) && !strings.Contains(pmPre.Version, "-p"+meta) {
				c.Rep.Find(report.Finding{Property: "C14", Family: "ordering", Shape: "apk:version-metadata-not-carried-as-written",
					What: fmt.Sprintf("the configuration states build metadata %q; the apk package states pkgver %q", meta, pmPre.Version), Input: in})
			}
			if pre != "" && f == "rpm" && !strings.Contains(pmPre.Version, "~"+strings.ReplaceAll(pre, "-", "_")) {
				c.Rep.Find(report.Finding{Property: "C14", Family: "ordering", Shape: "rpm:prerelease-not-carried-as-written",
					What: fmt.Sprintf("the version %s-%s has the prerelease %q; the rpm package states version %q", core, pre, pre, pmPre.Version), Input: in})
			}
			// archlinux: with an epoch configured (0 included) the prerelease is part of pkgver ('-' written as '_'); the
			// case without an epoch is the known finding recorded under C02 / C15 and is not judged here
			if f == "archlinux" && pre != "" && epoch != "" && !strings.Contains(pmPre.Version, strings.ReplaceAll(pre, "-", "_")) {
				c.Rep.Find(report.Finding{Property: "C14", Family: "ordering", Shape: "archlinux:prerelease-lost:with-epoch",
					What: fmt.Sprintf("the version %s-%s with epoch %q: .PKGINFO states pkgver %q, the prerelease is lost (the prerelease build and the release build get the same version)", core, pre, epoch, pmPre.Version), Input: in})
			}
			switch f {
			case "deb", "ipk":
				o, _ := c.D.Ask(fmt.Sprintf("dpkgcmp %s %s", wire.H(pmPre.Version), wire.H(pmRel.Version)))
				if lt, ok := dpkgLess(pmPre.Version, pmRel.Version); ok {
					if (o == "lt") != lt {
						c.Rep.Disagree(report.Disagreement{Family: "ordering", What: "dpkg --compare-versions vs model dpkgCompare", Input: map[string]any{"a": pmPre.Version, "b": pmRel.Version}, Model: o, Impl: fmt.Sprint("lt=", lt)})
					}
					if !lt {
						c.Rep.Find(report.Finding{Property: "C14", Family: "ordering", Shape: f + ":prerelease-not-before-release", What: fmt.Sprintf("dpkg: %q does not sort before %q", pmPre.Version, pmRel.Version), Input: in})
					}
				} else if o != "lt" {
					c.Rep.Find(report.Finding{Property: "C14", Family: "ordering", Shape: f + ":prerelease-not-before-release", What: fmt.Sprintf("dpkg comparison (model): %q does not sort before %q", pmPre.Version, pmRel.Version), Input: in})
				}
			case "rpm":
				o, _ := c.D.Ask(fmt.Sprintf("rpmcmp %s %s", wire.H(pmPre.Version), wire.H(pmRel.Version)))
				if pmPre.Epoch != pmRel.Epoch || pmPre.Release != pmRel.Release || o != "lt" {
					c.Rep.Find(report.Finding{Property: "C14", Family: "ordering", Shape: "rpm:prerelease-not-before-release", What: fmt.Sprintf("rpmvercmp: %q does not sort before %q", pmPre.Version, pmRel.Version), Input: in})
				}
			}
		}
		// numeric order and epoch domination on deb + rpm
		c2 := fmt.Sprintf("%d.%d.%d", r.Intn(4), r.Intn(12), r.Intn(12))
		if c2 != core {
			lessNum := func(a, b string) bool {
				var x, y [3]int
				fmt.Sscanf(a, "%d.%d.%d", &x[0], &x[1], &x[2])
				fmt.Sscanf(b, "%d.%d.%d", &y[0], &y[1], &y[2])
				for i := 0; i < 3; i++ {
					if x[i] != y[i] {
						return x[i] < y[i]
					}
				}
				return false
			}
			for _, op := range []string{"dpkgcmp", "rpmcmp"} {
				o, _ := c.D.Ask(fmt.Sprintf("%s %s %s", op, wire.H(core), wire.H(c2)))
				if (o == "lt") != lessNum(core, c2) {
					c.Rep.Find(report.Finding{Property: "C14", Family: "ordering", Shape: op + ":numeric-order", What: fmt.Sprintf("%s %q %q = %s", op, core, c2, o), Input: map[string]any{"a": core, "b": c2}})
				}
			}
			o, _ := c.D.Ask(fmt.Sprintf("dpkgcmp %s %s", wire.H("1:"+core), wire.H("2:"+c2)))
			if o != "lt" {
				c.Rep.Find(report.Finding{Property: "C14", Family: "ordering", Shape: "deb:epoch-order", What: "higher epoch does not sort after", Input: map[string]any{"a": "1:" + core, "b": "2:" + c2}})
			}
			if lt, ok := dpkgLess("1:"+core, "2:"+c2); ok && !lt {
				c.Rep.Find(report.Finding{Property: "C14", Family: "ordering", Shape: "deb:epoch-order", What: "dpkg: higher epoch does not sort after", Input: map[string]any{"a": "1:" + core, "b": "2:" + c2}})
			}
		}
	}
	// epochs as the packages carry them: a numerically higher configured epoch must be a numerically higher epoch in
	// the package (rpm: EPOCH tag; deb, ipk: the digits before ':' in Version, read as dpkg reads them, decimal)
	famE := c.Rep.Family("epoch-order", "deb, ipk, rpm packages of one version built with the epochs 1, 2, 8, 9, 010, 0010, 12, 100: the epoch found in the package (rpm EPOCH tag; deb/ipk digits before ':' read as a decimal number) must equal the decimal value of the configured epoch, hence every higher epoch sorts after every lower one; non-trivial = every case")
	famE.Exhaustive = true
	for _, f := range []string{"deb", "ipk", "rpm"} {
		for _, ep := range []string{"1", "2", "8", "9", "010", "0010", "12", "100"} {
			want, _ := strconv.ParseUint(ep, 10, 64)
			pm, _, err := buildMeta(f, func(i *nfpm.Info) { i.Version, i.Epoch = "1.2.3", ep })
			famE.Eval(f+"|"+ep, true)
			in := map[string]any{"format": f, "epoch": ep, "version": "1.2.3"}
			if err != nil {
				c.Rep.Find(report.Finding{Property: "C14", Family: "epoch-order", Shape: f + ":epoch-build-fails", What: "a decimal epoch is rejected: " + err.Error(), Input: in})
				continue
			}
			got := pm.Epoch
			if f != "rpm" {
				got = ""
				if i := strings.Index(pm.Version, ":"); i >= 0 {
					got = pm.Version[:i]
				}
			}
			g, perr := strconv.ParseUint(got, 10, 64)
			if perr != nil || g != want {
				c.Rep.Find(report.Finding{Property: "C14", Family: "epoch-order", Shape: f + ":epoch-value-differs",
					What: fmt.Sprintf("configured epoch %q (= %d) is stored as %q: a higher epoch no longer sorts after every lower one", ep, want, got), Input: in})
			}
		}
	}
	return nil
}

func runC15(c *Ctx) error {
	r := c.R.Fork("c15")
	fam := c.Rep.Family("file-name", "generated identities (name, version via WithDefaults from grammar versions, explicit prerelease/metadata, release, epoch, GOARCH from the documented table and unknown ones, per-format arch override) x 5 formats: ConventionalFileName vs model; file name components vs the metadata decoded from the package built from the same settings; asking for the name first must not change the package; non-trivial = version has a prerelease, metadata, release or epoch")
	names := []string{"foo", "foo-bar", "lib_x+1", "a.b", "verif2", ".hidden-tool", "-lead", "Foo_Bar", "x@y"}
	arches := []string{"amd64", "386", "arm64", "arm5", "arm6", "arm7", "mips64le", "mipsle", "mips", "ppc64le", "s390", "all", "riscv64", "x86_64"}
	n := c.N(120, 4000)
	for i := 0; i < n; i++ {
		vc := genVerCase(r)
		if vc.Schema == "bogus" {
			vc.Schema = ""
		}
		name := rng.Pick(r, names)
		arch := rng.Pick(r, arches)
		override := ""
		if r.Chance(1, 6) {
			override = rng.Pick(r, []string{"custom", "armv9", "any"})
		}
		platform := rng.Pick(r, []string{"linux", "linux", "linux", "freebsd"})
		// rarely used format-specific settings that sit next to the identity: none of them is part of the name
		extras := r.Chance(1, 3)
		for _, f := range Formats {
			mut := func(info *nfpm.Info) {
				vc.apply(info)
				info.Name, info.Arch = name, arch
				info.Platform = platform
				if extras {
					info.IPK.ABIVersion = "3"
					info.ArchLinux.Pkgbase = "basepkg"
					info.RPM.Group = "System/Tools"
					info.Section = "utils"
				}
				switch f {
				case "deb":
					info.Deb.Arch = override
				case "rpm":
					info.RPM.Arch = override
				case "apk":
					info.APK.Arch = override
				case "ipk":
					info.IPK.Arch = override
				case "archlinux":
					info.ArchLinux.Arch = override
				}
				nfpm.WithDefaults(info)
			}
			in := vc.in()
			in["format"], in["name"], in["arch"], in["arch_override"], in["platform"] = f, name, arch, override, platform
			if extras {
				in["extras"] = "ipk.abi_version 3, archlinux.pkgbase basepkg, rpm.group, section"
			}
			s := &PkgSpec{Umask: 0o022, MTime: 1700000000, Mutate: mut}
			p, _ := nfpm.Get(f)
			infoA := s.Info()
			vi := VInfo{Name: infoA.Name, Arch: infoA.Arch, Epoch: infoA.Epoch, Version: infoA.Version, Schema: infoA.VersionSchema,
				Release: infoA.Release, Prerelease: infoA.Prerelease, Metadata: infoA.VersionMetadata, ArchOverride: override, Platform: infoA.Platform}
			fileName := p.ConventionalFileName(infoA)
			fam.Eval(fmt.Sprint(in), infoA.Prerelease != "" || infoA.VersionMetadata != "" || infoA.Release != "" || infoA.Epoch != "")
			fam.Count(f)
			a, err := c.D.Ask(fmt.Sprintf("filename %s %s", f, vi.Enc()))
			if err != nil {
				return err
			}
			if a != wire.H(fileName) {
				m, _ := wire.UnH(a)
				c.Rep.Disagree(report.Disagreement{Family: "file-name", What: "ConventionalFileName vs model (" + f + ")", Input: in, Model: m, Impl: fileName})
			}
			// package built after asking for the name (same Info) vs from fresh settings
			dataAfter, err1 := BuildPkg(f, infoA)
			dataFresh, err2 := BuildPkg(f, s.Info())
			if err1 != nil || err2 != nil {
				fam.Count("build-error")
				if (err1 == nil) != (err2 == nil) {
					c.Rep.Find(report.Finding{Property: "C15", Family: "file-name", Shape: f + ":name-then-package-differs", What: fmt.Sprintf("errors differ: %v / %v", err1, err2), Input: in})
				}
				continue
			}
			if string(dataAfter) != string(dataFresh) {
				c.Rep.Find(report.Finding{Property: "C15", Family: "file-name", Shape: f + ":name-then-package-differs", What: "asking for the conventional file name changed the package built afterwards", Input: in})
			}
			dec, err := DecodePkg(f, dataFresh)
			if err != nil {
				continue
			}
			pm := metaOf(dec)
			ans, err := c.D.Ask(fmt.Sprintf("c15check %s %s %s %s %s %s", f, wire.H(fileName), wire.H(pm.Name), wire.H(pm.Version), wire.H(pm.Release), wire.H(pm.Arch)))
			if err != nil {
				return err
			}
			if strings.HasPrefix(ans, "violated ") {
				cl := strings.TrimPrefix(ans, "violated ")
				shape := f + ":" + cl
				if f == "archlinux" && cl == "version-components-differ" && infoA.Prerelease != "" && infoA.Epoch == "" {
					shape = "archlinux:pkgver-drops-prerelease"
				}
				c.Rep.Find(report.Finding{Property: "C15", Family: "file-name", Shape: shape,
					What:  fmt.Sprintf("file name %q vs metadata name=%q version=%q release=%q arch=%q: %s", fileName, pm.Name, pm.Version, pm.Release, pm.Arch, cl),
					Input: in})
			}
			if len(fam.Samples) < 3 {
				fam.Sample(map[string]any{"input": in, "file_name": fileName, "metadata": map[string]string{"name": pm.Name, "version": pm.Version, "release": pm.Release, "arch": pm.Arch}})
			}
		}
	}
	// command-line target resolution on the built binary (decision table proved in Props/C15: cli_*)
	famT := c.Rep.Family("cli-target", "the built nfpm binary, `nfpm package` in a fresh directory per case x 5 formats x 2 versions: target omitted (conventional name in the working directory), -t existing directory (relative; absolute with a space and a trailing slash), -t file with the format's extension / a foreign extension / no extension, packager omitted (inferred from the extension only then; error for a directory, an empty or extension-less target); the package must be a readable package of the right format exactly at the expected path and nothing else may appear")
	if bin, err := BuildNfpmBinary(c.Repo, c.Tmp); err != nil {
		c.Rep.Note("cli-target: cannot build the nfpm binary: %v", err)
	} else {
		CliTargetCases(c, famT, bin)
	}
	return nil
}
