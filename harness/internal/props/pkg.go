package props

import (
	"bytes"
	"fmt"
	"io/fs"
	"os"
	"strings"

	"github.com/goreleaser/nfpm/v2"
	_ "github.com/goreleaser/nfpm/v2/apk"
	_ "github.com/goreleaser/nfpm/v2/arch"
	_ "github.com/goreleaser/nfpm/v2/deb"
	"github.com/goreleaser/nfpm/v2/files"
	_ "github.com/goreleaser/nfpm/v2/ipk"
	_ "github.com/goreleaser/nfpm/v2/rpm"
	"verif/harness/decode"
	"verif/harness/internal/wire"
)

var Formats = []string{"deb", "rpm", "apk", "ipk", "archlinux"}

// PkgSpec is a generated packaging scenario; Info() returns a fresh nfpm.Info each time.
type PkgSpec struct {
	Raw      []wire.Content
	Umask    uint32
	MTime    int64
	NoGlob   bool
	Mutate   func(*nfpm.Info) // extra settings (compression, scripts, metadata …)
	Describe map[string]any
	// FromYAML, when set, makes Info() parse this document with nfpm.ParseWithEnvMapping (Env is the
	// mapping) instead of building the Info through the Go API: the route a user's nfpm.yaml takes.
	FromYAML string
	Env      map[string]string
}

func (s *PkgSpec) Info() *nfpm.Info {
	if s.FromYAML != "" {
		cfg, err := nfpm.ParseWithEnvMapping(strings.NewReader(s.FromYAML), func(k string) string { return s.Env[k] })
		if err != nil {
			// callers parse once themselves and report the error; an Info that cannot be packaged
			return &nfpm.Info{Name: "", Platform: "parse-error"}
		}
		info := cfg.Info
		if s.Mutate != nil {
			s.Mutate(&info)
		}
		return &info
	}
	info := &nfpm.Info{
		Name:        "verifpkg",
		Arch:        "amd64",
		Platform:    "linux",
		Version:     "1.2.3",
		Maintainer:  "Verif <verif@example.com>",
		Description: "verification package",
		Section:     "misc",
		Priority:    "optional",
		License:     "MIT",
		Homepage:    "https://example.com",
		MTime:       timeOf(s.MTime),
	}
	info.DisableGlobbing = s.NoGlob
	info.Umask = fs.FileMode(s.Umask)
	info.RPM.BuildHost = "buildhost.example"
	for _, c := range s.Raw {
		info.Contents = append(info.Contents, toReal(c))
	}
	if s.Mutate != nil {
		s.Mutate(info)
	}
	return info
}

func (s *PkgSpec) Input() map[string]any {
	m := map[string]any{"umask": fmt.Sprintf("%o", s.Umask), "mtime": s.MTime, "disable_globbing": s.NoGlob, "contents": contentsToAny(s.Raw)}
	for k, v := range s.Describe {
		m[k] = v
	}
	return m
}

// BuildPkg runs the registered packager.
func BuildPkg(format string, info *nfpm.Info) ([]byte, error) {
	p, err := nfpm.Get(format)
	if err != nil {
		return nil, err
	}
	var buf bytes.Buffer
	if err := p.Package(info, &buf); err != nil {
		return nil, err
	}
	return buf.Bytes(), nil
}

// RealPlan prepares the contents for a packager on a fresh Info (the packagers
// of apk and archlinux rewrite destinations in place while packaging).
func RealPlan(s *PkgSpec, format string) ([]wire.Content, error) {
	info := s.Info()
	if err := nfpm.PrepareForPackager(info, format); err != nil {
		return nil, err
	}
	res := make([]wire.Content, len(info.Contents))
	for i, c := range info.Contents {
		res[i] = fromReal(c)
	}
	return res, nil
}

func tarMembers(es []decode.Entry) ([]wire.Member, [][]byte) {
	ms := make([]wire.Member, len(es))
	bodies := make([][]byte, len(es))
	for i, e := range es {
		ms[i] = wire.Member{Name: e.Name, Kind: e.Type, Mode: uint64(e.Mode), Uname: e.Uname, Gname: e.Gname, MTime: e.MTime,
			Size: e.Size, Link: e.Linkname, InPayload: true}
		bodies[i] = e.Body
	}
	return ms, bodies
}

// Decoded is the format-independent view the checks use.
type Decoded struct {
	Format  string
	Members []wire.Member
	Bodies  [][]byte
	Deb     *decode.Deb
	Rpm     *decode.Rpm
	Apk     *decode.Apk
	Ipk     *decode.Ipk
	Arch    *decode.Arch
}

// DecodePkg reads a package with the independent readers and returns its payload members.
func DecodePkg(format string, data []byte) (*Decoded, error) {
	d := &Decoded{Format: format}
	switch format {
	case "deb":
		x, err := decode.ReadDeb(data)
		d.Deb = x
		if err != nil {
			return d, err
		}
		d.Members, d.Bodies = tarMembers(x.Data)
	case "ipk":
		x, err := decode.ReadIpk(data)
		d.Ipk = x
		if err != nil {
			return d, err
		}
		d.Members, d.Bodies = tarMembers(x.Data)
	case "apk":
		x, err := decode.ReadApk(data)
		d.Apk = x
		if err != nil {
			return d, err
		}
		if len(x.Segments) == 0 {
			return d, fmt.Errorf("apk without segments")
		}
		d.Members, d.Bodies = tarMembers(x.Segments[len(x.Segments)-1].Entries)
	case "archlinux":
		x, err := decode.ReadArch(data)
		d.Arch = x
		if err != nil {
			return d, err
		}
		var es []decode.Entry
		for _, e := range x.Entries {
			if e.Name == ".PKGINFO" || e.Name == ".MTREE" || e.Name == ".INSTALL" {
				continue
			}
			es = append(es, e)
		}
		d.Members, d.Bodies = tarMembers(es)
	case "rpm":
		x, err := decode.ReadRpm(data)
		d.Rpm = x
		if err != nil {
			return d, err
		}
		cp := map[string]*decode.CpioEntry{}
		for i := range x.Cpio {
			cp[x.Cpio[i].Name] = &x.Cpio[i]
		}
		for _, f := range x.Files {
			m := wire.Member{Name: f.Name, Mode: f.Mode, Uname: f.User, Gname: f.Group, MTime: int64(f.MTime), Size: int64(f.Size),
				Link: f.Linkto, Flags: f.Flags}
			switch {
			case f.Mode&0o170000 == 0o40000:
				m.Kind = '5'
			case f.Mode&0o170000 == 0o120000:
				m.Kind = '2'
			default:
				m.Kind = '0'
			}
			var body []byte
			if c, ok := cp[f.Name]; ok {
				m.InPayload = true
				body = c.Body
			}
			d.Members = append(d.Members, m)
			d.Bodies = append(d.Bodies, body)
		}
	default:
		return nil, fmt.Errorf("unknown format %s", format)
	}
	return d, nil
}

// AttachSources sets Src of every decoded regular member whose body equals the
// bytes of the source file the model names for the member of the same name.
func AttachSources(dec *Decoded, model []wire.Member) {
	byName := map[string]wire.Member{}
	for _, m := range model {
		byName[m.Name] = m
	}
	for i := range dec.Members {
		m := &dec.Members[i]
		if m.Kind != '0' {
			continue
		}
		mm, ok := byName[m.Name]
		if !ok || mm.Src == "" {
			if len(dec.Bodies[i]) > 0 || !ok {
				m.Src = "?"
			}
			continue
		}
		if !m.InPayload {
			m.Src = mm.Src // ghost: no body to compare
			continue
		}
		want, err := os.ReadFile(mm.Src)
		switch {
		case err != nil:
			m.Src = "!unreadable:" + mm.Src
		case bytes.Equal(want, dec.Bodies[i]):
			m.Src = mm.Src
		default:
			m.Src = "!body-differs-from:" + mm.Src
		}
	}
}

func showMembers(ms []wire.Member) string {
	parts := make([]string, len(ms))
	for i, m := range ms {
		parts[i] = m.String()
	}
	return strings.Join(parts, "\n      ")
}

var _ = files.TypeFile
