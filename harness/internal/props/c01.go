package props

import (
	"fmt"
	"os"
	"path/filepath"
	"strings"
	"time"

	"github.com/goreleaser/nfpm/v2"
	"verif/harness/internal/fsoracle"
	"verif/harness/internal/report"
	"verif/harness/internal/rng"
	"verif/harness/internal/wire"
)

func init() { Registry["C01"] = runC01 }

const nowSentinel = int64(-1)

// genPkgContents builds a mostly-valid content list over the source tree.
func genPkgContents(r *rng.R, t *SrcTree) []wire.Content {
	var cs []wire.Content
	fi := func() *wire.FileInfo {
		if !r.Chance(2, 5) {
			return nil
		}
		f := &wire.FileInfo{MTime: wire.ZeroTime}
		if r.Bool() {
			f.Owner = rng.Pick(r, []string{"app", "daemon", "root"})
		}
		if r.Bool() {
			f.Group = rng.Pick(r, []string{"app", "wheel", "root"})
		}
		if r.Bool() {
			f.Mode = rng.Pick(r, []uint32{0o644, 0o755, 0o600, 0o4755, 0o2755, 0o1777, 0o6711, 0o400, 0o7777})
		}
		if r.Chance(1, 3) {
			f.MTime = 1500000000 + int64(r.Intn(100000))
		} else if r.Chance(1, 8) {
			// the first seconds of the epoch: a declared time like any other, not "unset"
			f.MTime = rng.Pick(r, []int64{0, 1, 86399})
		}
		return f
	}
	tag := func() string {
		if r.Chance(1, 5) {
			return rng.Pick(r, Formats)
		}
		return ""
	}
	n := 1 + r.Intn(6)
	for i := 0; i < n; i++ {
		switch r.Intn(15) {
		case 0, 1, 2:
			cs = append(cs, wire.Content{Src: rng.Pick(r, t.Files), Dst: fmt.Sprintf("/usr/bin/f%d", i), Type: rng.Pick(r, []string{"", "file"}), Info: fi(), Packager: tag()})
		case 3:
			cs = append(cs, wire.Content{Src: rng.Pick(r, t.Files), Dst: fmt.Sprintf("/opt/app/d%d/", i), Info: fi(), Packager: tag()})
		case 4:
			cs = append(cs, wire.Content{Src: filepath.Join(t.Root, "etc/app.conf"), Dst: fmt.Sprintf("/etc/app/c%d.conf", i), Type: rng.Pick(r, []string{"config", "config|noreplace", "config|missingok"}), Info: fi(), Packager: tag()})
		case 5:
			cs = append(cs, wire.Content{Src: rng.Pick(r, []string{filepath.Join(t.Root, "etc/conf.d/*.conf"), filepath.Join(t.Root, "etc/conf.d"), filepath.Join(t.Root, "etc/**/*.conf"),
				// sibling directories one of whose names is a string prefix of the other: the common prefix of the matches is a directory
				filepath.Join(t.Root, "lib*/*.so"), filepath.Join(t.Root, "lib*")}),
				Dst: fmt.Sprintf("/etc/app/g%d", i), Type: rng.Pick(r, []string{"config", "file", "config|noreplace"}), Info: fi(), Packager: tag()})
		case 6:
			cs = append(cs, wire.Content{Dst: fmt.Sprintf("/var/lib/app/d%d", i), Type: "dir", Info: fi(), Packager: tag()})
			if r.Bool() {
				// … declared before an entry that lies beneath it: the directory keeps what was declared for it
				cs = append(cs, wire.Content{Src: rng.Pick(r, t.Files), Dst: fmt.Sprintf("/var/lib/app/d%d/%s", i, rng.Pick(r, []string{"state.db", "a/b/state.db"}))})
			}
		case 7:
			// the target of a declared symlink is text: a path that does not exist on the build host, a relative one, and
			// paths that do exist there – a file, a directory (of the source tree: whole-second mtimes) – must all be shipped
			// as links with that literal target
			cs = append(cs, wire.Content{Src: rng.Pick(r, []string{"/usr/bin/f0", "../lib/target", "rel", filepath.Join(t.Root, "bin/tool"), filepath.Join(t.Root, "etc"), filepath.Join(t.Root, "tree")}), Dst: fmt.Sprintf("/usr/bin/l%d", i), Type: "symlink", Packager: tag()})
		case 8:
			if r.Chance(1, 4) {
				// a tree laid over /usr, /etc or /var: the directories other packages own are only implied (the root itself
				// as a destination is the recorded C05 finding and is left to C05)
				sub := rng.Pick(r, []string{"usr", "etc", "var"})
				cs = append(cs, wire.Content{Src: filepath.Join(t.Root, "fsroot", sub), Dst: "/" + sub, Type: "tree", Info: fi(), Packager: tag()})
				break
			}
			cs = append(cs, wire.Content{Src: rng.Pick(r, []string{filepath.Join(t.Root, "tree"), filepath.Join(t.Root, "tree/sub")}), Dst: fmt.Sprintf("/usr/share/app/t%d", i), Type: "tree", Info: fi(), Packager: tag()})
		case 9:
			// a ghost may name a source (a template of the file created at run time): it is read for nothing – the entry
			// stays header-only
			gsrc := ""
			if r.Chance(1, 2) {
				gsrc = rng.Pick(r, t.Files)
			}
			cs = append(cs, wire.Content{Src: gsrc, Dst: fmt.Sprintf("/var/log/app%d.log", i), Type: "ghost", Info: fi(), Packager: tag()})
		case 12:
			// names that begin with a dot directly under the root and deeper
			switch r.Intn(4) {
			case 0:
				cs = append(cs, wire.Content{Src: rng.Pick(r, t.Files), Dst: fmt.Sprintf("/.hidden%d", i), Info: fi(), Packager: tag()})
			case 1:
				cs = append(cs, wire.Content{Src: rng.Pick(r, t.Files), Dst: fmt.Sprintf("/.cache/app/x%d", i), Info: fi(), Packager: tag()})
			case 2:
				cs = append(cs, wire.Content{Dst: fmt.Sprintf("/.snapshots%d/", i), Type: "dir", Info: fi(), Packager: tag()})
			default:
				cs = append(cs, wire.Content{Src: "/.cache/app", Dst: fmt.Sprintf("/..latest%d", i), Type: "symlink", Packager: tag()})
			}
		case 10:
			cs = append(cs, wire.Content{Src: rng.Pick(r, t.Files), Dst: fmt.Sprintf("/usr/share/doc/app/x%d", i), Type: rng.Pick(r, []string{"doc", "licence", "license", "readme"}), Info: fi(), Packager: tag()})
		case 13:
			// a backslash is an ordinary character of a file name and of a symlink target on the systems these packages
			// are installed on
			if r.Bool() {
				cs = append(cs, wire.Content{Src: rng.Pick(r, t.Files), Dst: fmt.Sprintf("/opt/demo/cur\\rent%d", i), Info: fi(), Packager: tag()})
			} else {
				cs = append(cs, wire.Content{Src: "..\\shared\\v1", Dst: fmt.Sprintf("/opt/demo/lnk%d", i), Type: "symlink", Packager: tag()})
			}
		default:
			cs = append(cs, wire.Content{Src: rng.Pick(r, []string{filepath.Join(t.Root, "with space/file name.txt"), filepath.Join(t.Root, "share/empty"), filepath.Join(t.Root, "links/ln"), filepath.Join(t.Root, "links/unclean"), filepath.Join(t.Root, "tree/dotlnk")}),
				Dst: fmt.Sprintf("/opt/sp ace/n%d", i), Info: fi(), Packager: tag()})
		}
	}
	return cs
}

var debCompressions = []string{"", "gzip", "xz", "zstd", "none"}
var rpmCompressions = []string{"", "gzip", "gzip:9", "xz", "lzma", "zstd", "zstd:3"}

func genPkgSpec(r *rng.R, t *SrcTree) *PkgSpec {
	s := &PkgSpec{
		Raw:   genPkgContents(r, t),
		Umask: rng.Pick(r, []uint32{0o002, 0o022, 0o077, 0o027}),
		MTime: rng.Pick(r, []int64{1700000000, 1700000000, 1234567890, wire.ZeroTime}),
	}
	dc, rc := rng.Pick(r, debCompressions), rng.Pick(r, rpmCompressions)
	s.Mutate = func(info *nfpm.Info) {
		info.Deb.Compression = dc
		info.RPM.Compression = rc
	}
	s.Describe = map[string]any{"deb.compression": dc, "rpm.compression": rc}
	return s
}

// canonMTimes replaces clock readings by the sentinel where the model predicts the clock.
func canonMTimes(dec []wire.Member, model []wire.Member, t0, t1 int64) {
	byName := map[string]wire.Member{}
	for _, m := range model {
		byName[m.Name] = m
	}
	for i := range dec {
		mm, ok := byName[dec[i].Name]
		if !ok {
			continue
		}
		if (mm.MTime == nowSentinel || mm.MTime == 4294967295) && dec[i].MTime >= t0-2 && dec[i].MTime <= t1+2 {
			dec[i].MTime = mm.MTime
		}
		// with no package mtime configured the clock is read more than once – when the plan the model starts from is
		// prepared and again when the package is built: two readings inside the window of this case are the same "now"
		if mm.MTime >= t0-2 && mm.MTime <= t1+2 && dec[i].MTime >= t0-2 && dec[i].MTime <= t1+2 {
			dec[i].MTime = mm.MTime
		}
	}
}

// payloadCase: one spec x one format through implementation, model and spec.
func payloadCase(c *Ctx, fam *report.Family, famName string, s *PkgSpec, format string) (dec *Decoded, plan []wire.Content, ok bool) {
	t0 := time.Now().Unix()
	plan, perr := RealPlan(s, format)
	data, berr := BuildPkg(format, s.Info())
	t1 := time.Now().Unix()
	key := fmt.Sprintf("%s|%v", format, s.Input())
	if perr != nil || berr != nil {
		fam.Eval(key, false)
		fam.Count("build-error")
		if (perr == nil) != (berr == nil) {
			c.Rep.Disagree(report.Disagreement{Family: famName, What: "PrepareForPackager and Package disagree on failure", Input: s.Input(), Model: fmt.Sprint(perr), Impl: fmt.Sprint(berr)})
		}
		return nil, nil, false
	}
	// what the configured contents denote is decided by the MODEL of planning (the real plan is only the witness):
	// a planning change that alters modes, link targets, sources or destinations must not hide behind itself
	if len(s.Raw) > 0 && s.FromYAML == "" {
		cfg := wire.PlanCfg{Packager: format, Umask: s.Umask, NoGlob: s.NoGlob, MTime: s.MTime}
		if a, err := c.D.Ask(wire.PlanReq(cfg, s.Raw, fsoracle.Build(s.Raw, s.NoGlob))); err == nil {
			mcs, merr, perr := wire.ParseContents(a)
			if perr == nil && showPlan(mcs, merr) != showPlan(plan, "") {
				in := s.Input()
				in["format"] = format
				c.Rep.Find(report.Finding{Property: c.Prop, Family: famName, Shape: format + ":planned-entries-differ-from-what-the-contents-denote",
					What:  "the entries nfpm planned differ from the entries the configured contents denote (model of files.PrepareForPackager): denoted " + showPlan(mcs, merr) + " :: planned " + showPlan(plan, ""),
					Input: in})
			}
		}
	}
	dec, derr := DecodePkg(format, data)
	if derr != nil {
		c.Rep.Find(report.Finding{Property: "C04", Family: famName, Shape: "undecodable:" + format, What: "independent reader rejects the package: " + derr.Error(), Input: s.Input()})
		return nil, nil, false
	}
	ans, err := c.D.Ask(fmt.Sprintf("members %s %d %d %s", format, nowSentinel, s.MTime, wire.EncContentsOut(plan)))
	if err != nil {
		c.Rep.Note("driver: %v", err)
		return nil, nil, false
	}
	model, merr := wire.ParseMembers(ans)
	if merr != nil {
		c.Rep.Note("members answer: %v", merr)
		return nil, nil, false
	}
	if format == "deb" && s.Info().Changelog != "" {
		// the generated changelog is not part of the contents
	}
	AttachSources(dec, model)
	canonMTimes(dec.Members, model, t0, t1)
	fam.Eval(key, len(dec.Members) > 1)
	fam.Count(format)
	in := s.Input()
	in["format"] = format
	if showMembers(model) != showMembers(dec.Members) {
		c.Rep.Disagree(report.Disagreement{Family: famName, What: "payload members: model vs " + format + " package", Input: in, Model: showMembers(model), Impl: showMembers(dec.Members)})
	}
	return dec, plan, true
}

func runC01(c *Ctx) error {
	big := 0
	if c.Thorough() {
		big = 9 << 20
	}
	tree, err := MkTree(filepath.Join(c.Tmp, "src"), big)
	if err != nil {
		return err
	}
	fam := c.Rep.Family("payload", "random valid content lists (files, config*, globs, dirs, symlinks, trees, ghost/doc/licence/readme, packager tags, partial file_info incl. setuid/setgid/sticky modes, names with spaces) x umask x mtime x 5 formats x compression; payload decoded by independent readers, every member compared with the model and with the logical entries the contents denote; non-trivial = more than one payload member")
	r := c.R.Fork("c01")
	n := c.N(150, 3000)
	for i := 0; i < n; i++ {
		s := genPkgSpec(r, tree)
		if big > 0 && r.Chance(1, 50) {
			s.Raw = append(s.Raw, wire.Content{Src: filepath.Join(tree.Root, "share/big.bin"), Dst: "/opt/big/big.bin"})
		}
		for _, f := range Formats {
			dec, plan, ok := payloadCase(c, fam, "payload", s, f)
			if !ok {
				continue
			}
			ans, err := c.D.Ask(fmt.Sprintf("c01check %s %s %s", f, wire.EncContentsOut(plan), wire.EncMembers(dec.Members)))
			if err != nil {
				return err
			}
			if strings.HasPrefix(ans, "violated ") {
				cl := strings.TrimPrefix(ans, "violated ")
				in := s.Input()
				in["format"] = f
				shape := f + ":" + strings.SplitN(cl, "_", 2)[0]
				c.Rep.Find(report.Finding{Property: "C01", Family: "payload", Shape: shape, What: "payload of the " + f + " package differs from what the contents denote: " + cl, Input: in})
			} else if ans != "holds" {
				c.Rep.Note("c01check: %s", ans)
			}
			if len(fam.Samples) < 2 && len(dec.Members) > 2 {
				in := s.Input()
				in["format"] = f
				fam.Sample(map[string]any{"input": in, "members": showMembers(dec.Members)})
			}
		}
	}
	c01FixedLists(c, tree)
	c01SharedConfiguration(c, tree)
	return nil
}

// c01SharedConfiguration: one configuration held in memory – entries for every packager, entries tagged for one, an
// override block per format – is asked for every format in turn (Config.Get, WithDefaults, Package: what a release tool
// does). The payload of each package must be what the configured contents denote for that format, whichever formats
// were asked for before.
func c01SharedConfiguration(c *Ctx, tree *SrcTree) {
	fam := c.Rep.Family("shared-configuration", "one nfpm.Config (contents for all packagers and contents tagged for one, an override block for every format) asked for the five formats in turn, in two orders: every package decoded and its payload compared with what the configured contents denote for that format (model of planning + spec); non-trivial = more than one payload member")
	var raw []wire.Content
	for _, f := range Formats {
		raw = append(raw, wire.Content{Src: filepath.Join(tree.Root, "etc/app.conf"), Dst: "/etc/app/only-" + f + ".conf", Type: "config", Packager: f})
		raw = append(raw, wire.Content{Src: filepath.Join(tree.Root, "bin/tool"), Dst: "/usr/bin/common-after-" + f})
	}
	raw = append(raw, wire.Content{Dst: "/var/lib/app", Type: "dir"}, wire.Content{Src: "/usr/bin/common-after-deb", Dst: "/usr/bin/lnk", Type: "symlink"})
	s := &PkgSpec{Raw: raw, Umask: 0o022, MTime: 1700000000}
	rev := []string{}
	for i := len(Formats) - 1; i >= 0; i-- {
		rev = append(rev, Formats[i])
	}
	for _, order := range [][]string{Formats, rev} {
		cfg := &nfpm.Config{Info: *s.Info(), Overrides: map[string]*nfpm.Overridables{}}
		for _, f := range Formats {
			cfg.Overrides[f] = &nfpm.Overridables{Depends: []string{"only-" + f}}
		}
		for step, f := range order {
			in := map[string]any{"contents": raw, "overrides": "depends: [only-<format>] for every format", "order": order, "step": step + 1, "format": f}
			gi, err := cfg.Get(f)
			if err != nil {
				c.Rep.Note("shared-configuration: Get(%s): %v", f, err)
				continue
			}
			data, err := BuildPkg(f, nfpm.WithDefaults(gi))
			if err != nil {
				fam.Eval(fmt.Sprintf("%v|%d", order, step), false)
				c.Rep.Find(report.Finding{Property: "C01", Family: "shared-configuration", Shape: f + ":build-fails-when-configuration-is-shared",
					What: fmt.Sprintf("the %s package of a configuration that was asked for %v before does not build: %v", f, order[:step], err), Input: in})
				continue
			}
			dec, err := DecodePkg(f, data)
			if err != nil {
				c.Rep.Note("shared-configuration: decode %s: %v", f, err)
				continue
			}
			fam.Eval(fmt.Sprintf("%v|%d", order, step), len(dec.Members) > 1)
			fam.Count(f)
			pc := wire.PlanCfg{Packager: f, Umask: s.Umask, MTime: s.MTime}
			a, err := c.D.Ask(wire.PlanReq(pc, raw, fsoracle.Build(raw, false)))
			if err != nil {
				c.Rep.Note("driver: %v", err)
				return
			}
			mcs, merr, perr := wire.ParseContents(a)
			if perr != nil || merr != "" {
				c.Rep.Note("shared-configuration: model plan: %v %s", perr, merr)
				continue
			}
			ma, err := c.D.Ask(fmt.Sprintf("members %s %d %d %s", f, nowSentinel, s.MTime, wire.EncContentsOut(mcs)))
			if err != nil {
				c.Rep.Note("driver: %v", err)
				return
			}
			model, merr2 := wire.ParseMembers(ma)
			if merr2 != nil {
				c.Rep.Note("shared-configuration: members answer: %v", merr2)
				continue
			}
			AttachSources(dec, model)
			ans, err := c.D.Ask(fmt.Sprintf("c01check %s %s %s", f, wire.EncContentsOut(mcs), wire.EncMembers(dec.Members)))
			if err != nil {
				c.Rep.Note("driver: %v", err)
				return
			}
			if strings.HasPrefix(ans, "violated ") {
				cl := strings.TrimPrefix(ans, "violated ")
				c.Rep.Find(report.Finding{Property: "C01", Family: "shared-configuration", Shape: f + ":" + strings.SplitN(cl, "_", 2)[0] + ":configuration-shared",
					What: fmt.Sprintf("the payload of the %s package of a configuration that was asked for %v before differs from what the contents denote: %s", f, order[:step], cl), Input: in})
			}
		}
	}
}

// c01FixedLists: content lists that need a particular shape – a declared directory at a path other packages own, listed
// before a tree that passes through it (everything beneath it is still shipped); and every list once more with
// SOURCE_DATE_EPOCH exported while the configuration declares its own mtime (the declared one is the package's).
func c01FixedLists(c *Ctx, t *SrcTree) {
	fam := c.Rep.Family("fixed-lists", "exhaustive: a declared directory at a file-system-owned path ({/var/log, /usr/lib/.build-id, /etc/logrotate.d}) before and after a tree laid over its parent, and a plain list, each with and without SOURCE_DATE_EPOCH=1500000000 exported next to a declared mtime of 1700000000, through nfpm.WithDefaults x 5 formats: payload decoded and compared with what the contents denote; non-trivial = more than one payload member")
	fam.Exhaustive = true
	fi := &wire.FileInfo{Mode: 0o750, Owner: "demo", Group: "demo", MTime: wire.ZeroTime}
	tool := filepath.Join(t.Root, "bin/tool")
	lists := [][]wire.Content{
		{{Dst: "/var/log", Type: "dir", Info: fi}, {Src: filepath.Join(t.Root, "fsroot/var"), Dst: "/var", Type: "tree"}},
		{{Src: filepath.Join(t.Root, "fsroot/var"), Dst: "/var", Type: "tree"}, {Dst: "/var/lib/logrotate", Type: "dir", Info: fi}},
		{{Dst: "/usr/lib/.build-id", Type: "dir", Info: fi}, {Src: filepath.Join(t.Root, "fsroot/usr"), Dst: "/usr", Type: "tree"}},
		{{Dst: "/etc/logrotate.d", Type: "dir"}, {Src: filepath.Join(t.Root, "fsroot/etc"), Dst: "/etc", Type: "tree"}, {Src: tool, Dst: "/usr/bin/tool"}},
		{{Src: tool, Dst: "/usr/bin/tool"}, {Dst: "/var/lib/demo", Type: "dir", Info: fi}, {Src: "/usr/bin/tool", Dst: "/usr/bin/t", Type: "symlink"}},
	}
	for _, sde := range []string{"", "1500000000"} {
		if sde != "" {
			os.Setenv("SOURCE_DATE_EPOCH", sde)
		}
		for _, raw := range lists {
			s := &PkgSpec{Raw: raw, Umask: 0o022, MTime: 1700000000, Mutate: func(info *nfpm.Info) { nfpm.WithDefaults(info) },
				Describe: map[string]any{"SOURCE_DATE_EPOCH": sde, "mtime": "declared: 1700000000"}}
			for _, f := range Formats {
				dec, plan, ok := payloadCase(c, fam, "fixed-lists", s, f)
				if !ok {
					continue
				}
				ans, err := c.D.Ask(fmt.Sprintf("c01check %s %s %s", f, wire.EncContentsOut(plan), wire.EncMembers(dec.Members)))
				if err != nil {
					break
				}
				in := s.Input()
				in["format"] = f
				if strings.HasPrefix(ans, "violated ") {
					cl := strings.TrimPrefix(ans, "violated ")
					c.Rep.Find(report.Finding{Property: "C01", Family: "fixed-lists", Shape: f + ":" + strings.SplitN(cl, "_", 2)[0], What: "payload of the " + f + " package differs from what the contents denote: " + cl, Input: in})
				}
				// the declared package mtime is the time of every entry that has none of its own – whatever the environment says
				for _, m := range dec.Members {
					if m.InPayload && (m.Kind == '5' || m.Kind == '2') && m.MTime != 0 && m.MTime != 1700000000 && f != "apk" && f != "archlinux" {
						c.Rep.Find(report.Finding{Property: "C01", Family: "fixed-lists", Shape: f + ":declared-package-mtime-not-used",
							What: fmt.Sprintf("member %s carries time %d; the configuration declares mtime 1700000000 (SOURCE_DATE_EPOCH=%q)", m.Name, m.MTime, sde), Input: in})
						break
					}
				}
			}
		}
		os.Unsetenv("SOURCE_DATE_EPOCH")
	}
}
