package props

import (
	"bytes"
	"encoding/json"
	"fmt"
	"os"
	"os/exec"
	"path/filepath"
	"regexp"
	"sort"
	"strings"

	"github.com/goreleaser/nfpm/v2"
	"github.com/goreleaser/nfpm/v2/files"
	"gopkg.in/yaml.v3"
	"verif/harness/internal/report"
	"verif/harness/internal/rng"
)

func init() { Registry["C17"] = runC17 }

// BuildNfpmBinary builds cmd/nfpm of the tree under test into dir.
func BuildNfpmBinary(repo, dir string) (string, error) {
	out := filepath.Join(dir, "nfpm-under-test")
	cmd := exec.Command("go", "build", "-o", out, "./cmd/nfpm")
	cmd.Dir = repo
	cmd.Env = append(os.Environ(), "GOFLAGS=-mod=mod", "GOPROXY=off", "GOSUMDB=off", "GOTOOLCHAIN=local", "CGO_ENABLED=0")
	if b, err := cmd.CombinedOutput(); err != nil {
		return "", fmt.Errorf("go build cmd/nfpm: %v: %s", err, b)
	}
	return out, nil
}

// validateSchema: validator for the subset of JSON Schema the reflector emits.
func validateSchema(root map[string]any, node map[string]any, doc any, path string) []string {
	if ref, ok := node["$ref"].(string); ok {
		defs, _ := root["$defs"].(map[string]any)
		d, ok := defs[strings.TrimPrefix(ref, "#/$defs/")].(map[string]any)
		if !ok {
			return []string{path + ": unresolved " + ref}
		}
		return validateSchema(root, d, doc, path)
	}
	var errs []string
	if e, ok := node["enum"].([]any); ok {
		found := false
		for _, v := range e {
			if fmt.Sprint(v) == fmt.Sprint(doc) {
				found = true
			}
		}
		if !found {
			errs = append(errs, fmt.Sprintf("%s: %v not in enum", path, doc))
		}
	}
	if cv, ok := node["const"]; ok && fmt.Sprint(cv) != fmt.Sprint(doc) {
		errs = append(errs, fmt.Sprintf("%s: %v is not the constant %v", path, doc, cv))
	}
	if p, ok := node["pattern"].(string); ok {
		if s, ok := doc.(string); ok {
			if re, err := regexp.Compile(p); err == nil && !re.MatchString(s) {
				errs = append(errs, fmt.Sprintf("%s: %q does not match %s", path, s, p))
			}
		}
	}
	switch node["type"] {
	case "object":
		m, ok := doc.(map[string]any)
		if !ok {
			return append(errs, path+": not an object")
		}
		props, _ := node["properties"].(map[string]any)
		if req, ok := node["required"].([]any); ok {
			for _, r := range req {
				if _, ok := m[fmt.Sprint(r)]; !ok {
					errs = append(errs, path+": missing required "+fmt.Sprint(r))
				}
			}
		}
		if pn, ok := node["propertyNames"].(map[string]any); ok {
			for k := range m {
				for _, e := range validateSchema(root, pn, k, path+"."+k+" (key)") {
					errs = append(errs, e)
				}
			}
		}
		for k, v := range m {
			if sub, ok := props[k].(map[string]any); ok {
				errs = append(errs, validateSchema(root, sub, v, path+"."+k)...)
				continue
			}
			switch ap := node["additionalProperties"].(type) {
			case map[string]any:
				errs = append(errs, validateSchema(root, ap, v, path+"."+k)...)
			case bool:
				if !ap {
					errs = append(errs, path+": unknown key "+k)
				}
			}
		}
	case "array":
		l, ok := doc.([]any)
		if !ok {
			return append(errs, path+": not an array")
		}
		if it, ok := node["items"].(map[string]any); ok {
			for i, v := range l {
				errs = append(errs, validateSchema(root, it, v, fmt.Sprintf("%s[%d]", path, i))...)
			}
		}
	case "string":
		if _, ok := doc.(string); !ok {
			errs = append(errs, fmt.Sprintf("%s: %v is not a string", path, doc))
		}
	case "integer":
		switch doc.(type) {
		case float64, int, int64:
		default:
			errs = append(errs, fmt.Sprintf("%s: %v is not an integer", path, doc))
		}
	case "boolean":
		if _, ok := doc.(bool); !ok {
			errs = append(errs, fmt.Sprintf("%s: %v is not a boolean", path, doc))
		}
	}
	return errs
}

func runC17(c *Ctx) error {
	bin, err := BuildNfpmBinary(c.Repo, c.Tmp)
	if err != nil {
		return err
	}
	fam := c.Rep.Family("schema-command", "`nfpm jsonschema` of the binary built from the tree: -o file byte-compared with www/docs/static/schema.json, stdout variant compared with the file; the emitted schema is then the validator's input")
	outFile := filepath.Join(c.Tmp, "schema-out.json")
	if b, err := exec.Command(bin, "jsonschema", "-o", outFile).CombinedOutput(); err != nil {
		return fmt.Errorf("nfpm jsonschema: %v %s", err, b)
	}
	emitted, err := os.ReadFile(outFile)
	if err != nil {
		return err
	}
	published, err := os.ReadFile(filepath.Join(c.Repo, "www/docs/static/schema.json"))
	if err != nil {
		return err
	}
	fam.Eval("published-vs-emitted", true)
	if !bytes.Equal(emitted, published) {
		c.Rep.Find(report.Finding{Property: "C17", Family: "schema-command", Shape: "published-schema-differs", What: fmt.Sprintf("www/docs/static/schema.json (%d bytes) differs from the output of `nfpm jsonschema -o` (%d bytes)", len(published), len(emitted)), Input: map[string]any{"cmd": "nfpm jsonschema -o FILE"}})
	}
	stdout, err := exec.Command(bin, "jsonschema").Output()
	fam.Eval("stdout-vs-file", true)
	if err != nil || strings.TrimRight(string(stdout), "\n") != strings.TrimRight(string(emitted), "\n") {
		c.Rep.Find(report.Finding{Property: "C17", Family: "schema-command", Shape: "stdout-schema-differs", What: "`nfpm jsonschema` to stdout differs from -o output", Input: map[string]any{"cmd": "nfpm jsonschema"}})
	}
	fam.Sample(map[string]any{"emitted_bytes": len(emitted), "published_bytes": len(published)})
	var root map[string]any
	if err := json.Unmarshal(emitted, &root); err != nil {
		return err
	}

	// ---- every key path with every accepted enumerated value: parser accepts => schema validates
	kinds, order, err := keyPathsOf(c)
	if err != nil {
		return err
	}
	fam2 := c.Rep.Family("accepts-implies-validates", fmt.Sprintf("exhaustive: for every key path of the reflected tree (%d) the minimal document (documented-required keys present) with a typed leaf, and for every enumerated setting every value the code accepts (entry types, deb/rpm compression incl. algorithm:level, signature method/type, version schema): the strict parser must accept it and the emitted schema must validate its JSON form; the same documents with an unknown key injected at every object level (parser and schema must both reject); then random larger documents; non-trivial = more than the required keys", len(order)))
	fam2.Exhaustive = true
	var accepted []string // JSON forms of the documents parser and harness validator both accept (second opinion below)
	check := func(doc map[string]any, label string) {
		yb, _ := yaml.Marshal(doc)
		_, perr := nfpm.ParseWithEnvMapping(bytes.NewReader(yb), func(string) string { return "" })
		jb, _ := json.Marshal(doc)
		var jd any
		_ = json.Unmarshal(jb, &jd)
		verrs := validateSchema(root, root, jd, "$")
		if perr == nil && len(verrs) == 0 {
			accepted = append(accepted, string(jb))
		}
		fam2.Eval(label+string(jb), len(doc) > 3)
		// the key paths the parser defines are the same whichever entry point reads the document: from a file path
		// (nfpm.ParseFile, `nfpm package -f`) as from a reader
		if fp := filepath.Join(c.Tmp, "c17-doc.yaml"); os.WriteFile(fp, yb, 0o644) == nil {
			if _, ferr := nfpm.ParseFileWithEnvMapping(fp, func(string) string { return "" }); (ferr == nil) != (perr == nil) {
				c.Rep.Find(report.Finding{Property: "C17", Family: "accepts-implies-validates", Shape: "file-route-differs-from-reader-route",
					What: fmt.Sprintf("nfpm.ParseFile and nfpm.Parse disagree on the document (file: %v; reader: %v): the schema describes one set of key paths", ferr, perr), Input: map[string]any{"document": string(yb)}})
			}
		}
		if perr == nil && len(verrs) > 0 {
			c.Rep.Find(report.Finding{Property: "C17", Family: "accepts-implies-validates", Shape: "schema-rejects-accepted-document:" + strings.SplitN(strings.SplitN(verrs[0], ": ", 2)[1], " ", 3)[0],
				What: "the parser accepts the document but the schema rejects it: " + strings.Join(verrs, "; "), Input: map[string]any{"document": string(yb)}})
		}
		if perr != nil && len(verrs) == 0 {
			// schema allows, parser rejects: only a violation when the parser's complaint is an unknown key
			if strings.Contains(perr.Error(), "not found in type") {
				c.Rep.Find(report.Finding{Property: "C17", Family: "accepts-implies-validates", Shape: "schema-allows-unknown-key", What: "the schema validates a key the strict parser rejects: " + perr.Error(), Input: map[string]any{"document": string(yb)}})
			}
		}
	}
	enumerated := map[string][]string{
		"contents.[].type":     {"", "file", "config", "config|noreplace", "config|missingok", "dir", "symlink", "tree", "ghost", "doc", "licence", "license", "readme"},
		"deb.compression":      {"gzip", "xz", "zstd", "none"},
		"rpm.compression":      {"gzip", "lzma", "xz", "zstd", "gzip:9", "gzip:-1", "zstd:3", "zstd:fastest"},
		"deb.signature.method": {"debsign", "dpkg-sig"},
		"deb.signature.type":   {"origin", "maint", "archive"},
		"version_schema":       {"semver", "none"},
	}
	for _, p := range order {
		var leaf any = leafFor(kinds[p])
		if kinds[p] == "time" {
			leaf = "2023-11-14T22:13:20Z"
		}
		if vals, ok := enumerated[strings.TrimPrefix(p, "overrides.{}.")]; ok {
			leaf = vals[len(vals)-1]
		}
		doc := docFor(kinds, p, leaf, -1)
		fixRequired(doc)
		check(doc, "path:"+p)
		// the same document with an unknown key at every object level of the path: parser and schema must
		// agree (both reject) – a parser that tolerates what the schema forbids is a disagreement on key paths
		for lvl := 0; lvl < objectLevels(p); lvl++ {
			bad := docFor(kinds, p, leaf, lvl)
			fixRequired(bad)
			check(bad, fmt.Sprintf("inject:%s@%d", p, lvl))
		}
	}
	// the same key paths whatever the file is called: a document in JSON syntax (which is YAML) read from a file named
	// *.json, *.yaml or *.yml is accepted exactly when the reader route accepts that text – keys spelled in another case
	// included (the schema is case-sensitive)
	for di, text := range []string{
		`{"name": "p", "arch": "amd64", "version": "1.0.0", "deb": {"compression": "xz"}}`,
		`{"Name": "p", "arch": "amd64", "version": "1.0.0"}`,
		`{"name": "p", "ARCH": "amd64", "version": "1.0.0"}`,
		`{"name": "p", "arch": "amd64", "version": "1.0.0", "Deb": {"compression": "xz"}}`,
		`{"name": "p", "arch": "amd64", "version": "1.0.0", "deb": {"Compression": "xz"}}`,
		`{"name": "p", "arch": "amd64", "version": "1.0.0", "contents": [{"Src": "a", "dst": "/b"}]}`,
	} {
		_, rerr := nfpm.ParseWithEnvMapping(strings.NewReader(text), func(string) string { return "" })
		var jd any
		_ = json.Unmarshal([]byte(text), &jd)
		verrs := validateSchema(root, root, jd, "$")
		for _, ext := range []string{".json", ".yaml", ".yml", ".JSON", ""} {
			fp := filepath.Join(c.Tmp, fmt.Sprintf("c17-named-%d%s", di, ext))
			if os.WriteFile(fp, []byte(text), 0o644) != nil {
				continue
			}
			_, ferr := nfpm.ParseFileWithEnvMapping(fp, func(string) string { return "" })
			fam2.Eval(fmt.Sprintf("file-name:%d%s", di, ext), true)
			if (ferr == nil) != (rerr == nil) {
				c.Rep.Find(report.Finding{Property: "C17", Family: "accepts-implies-validates", Shape: "file-route-differs-from-reader-route:by-file-name",
					What: fmt.Sprintf("the document read from a file named *%s: %v; the same text from a reader: %v (the schema: %d complaint(s)) – the key paths the parser accepts depend on the name of the file", ext, ferr, rerr, len(verrs)), Input: map[string]any{"document": text, "file_extension": ext}})
			}
		}
	}
	// a mapping key that is YAML null (`~:`, `null:`) is a key path no schema object allows (additionalProperties: false
	// everywhere); the strict parser must not let it – and whatever hangs below it – through, at any depth, list
	// elements included
	for where, text := range map[string]string{
		"top-level":                "name: p\narch: amd64\nversion: 1.0.0\n~: x\n",
		"contents[]":               "name: p\narch: amd64\nversion: 1.0.0\ncontents:\n- src: a\n  dst: /b\n  ~: x\n",
		"contents[].file_info":     "name: p\narch: amd64\nversion: 1.0.0\ncontents:\n- src: a\n  dst: /b\n  file_info:\n    null: 1\n",
		"overrides.deb.contents[]": "name: p\narch: amd64\nversion: 1.0.0\noverrides:\n  deb:\n    contents:\n    - src: a\n      dst: /b\n      ~: {x: 1}\n",
		"ipk.alternatives[]":       "name: p\narch: amd64\nversion: 1.0.0\nipk:\n  alternatives:\n  - priority: 1\n    target: /t\n    link_name: /l\n    Null: y\n",
		"deb.signature":            "name: p\narch: amd64\nversion: 1.0.0\ndeb:\n  signature:\n    ~: x\n",
		"second element of a list": "name: p\narch: amd64\nversion: 1.0.0\ncontents:\n- src: a\n  dst: /b\n- src: c\n  dst: /d\n  ~:\n    mode: 0644\n",
	} {
		_, perr := nfpm.ParseWithEnvMapping(strings.NewReader(text), func(string) string { return "" })
		fam2.Eval("null-key:"+where, true)
		if perr == nil {
			c.Rep.Find(report.Finding{Property: "C17", Family: "accepts-implies-validates", Shape: "parser-accepts-key-path-no-schema-object-allows:null-key",
				What: "the strict parser accepts a document with a null mapping key at " + where + " (the key and everything below it is dropped silently); no object of the schema allows such a key", Input: map[string]any{"document": text, "where": where}})
		}
	}
	// the overrides section under every packager's name: the schema allows each of them, so must the parser (and vice
	// versa); an unregistered name is allowed by neither
	for _, f := range append(append([]string{}, Formats...), "debb", "DEB", "zst") {
		for _, body := range []any{map[string]any{"depends": []any{"x"}}, map[string]any{"contents": []any{map[string]any{"src": "a", "dst": "/b"}}}, map[string]any{"umask": 18}} {
			doc := map[string]any{"name": "p", "arch": "amd64", "version": "1.0.0", "overrides": map[string]any{f: body}}
			check(doc, "overrides-key:"+f)
			if _, isFormat := c07Ext[f]; isFormat {
				yb, _ := yaml.Marshal(doc)
				if _, perr := nfpm.ParseWithEnvMapping(bytes.NewReader(yb), func(string) string { return "" }); perr != nil {
					c.Rep.Find(report.Finding{Property: "C17", Family: "accepts-implies-validates", Shape: "parser-rejects-key-path-the-schema-allows:overrides." + f,
						What: "the schema allows the overrides section of the registered packager " + f + ", the parser rejects the document: " + perr.Error(), Input: map[string]any{"document": string(yb)}})
				}
			}
		}
	}
	// keys of the `x-…` kind (extension fields other tools tolerate): the schema has no place for them, so neither has
	// the parser – at the top level, in a format section, in a contents entry, in an override block
	for where, doc := range map[string]map[string]any{
		"top-level":        {"name": "p", "arch": "amd64", "version": "1.0.0", "x-file-info": map[string]any{"mode": 420}},
		"top-level-scalar": {"name": "p", "arch": "amd64", "version": "1.0.0", "x-note": "text"},
		"deb":              {"name": "p", "arch": "amd64", "version": "1.0.0", "deb": map[string]any{"x-note": "text"}},
		"contents[]":       {"name": "p", "arch": "amd64", "version": "1.0.0", "contents": []any{map[string]any{"src": "a", "dst": "/b", "x-note": "text"}}},
		"overrides.rpm":    {"name": "p", "arch": "amd64", "version": "1.0.0", "overrides": map[string]any{"rpm": map[string]any{"x-note": "text"}}},
	} {
		check(doc, "x-key:"+where)
	}
	// integer settings: the parser accepts any number that fits the field (modes with set-user-ID, set-group-ID and sticky
	// bits, a umask, large sizes, priorities); the schema must not be narrower than that
	for _, p := range order {
		if kinds[p] != "int" {
			continue
		}
		for _, v := range []int{0, 1, 0o644, 0o777, 0o1777, 0o2755, 0o4755, 0o7777, 65535, 1 << 20} {
			doc := docFor(kinds, p, v, -1)
			fixRequired(doc)
			check(doc, fmt.Sprintf("int:%s=%d", p, v))
		}
	}
	for p, vals := range enumerated {
		for _, v := range vals {
			doc := docFor(kinds, p, v, -1)
			if strings.HasPrefix(p, "contents") {
				doc["contents"].([]any)[0].(map[string]any)["dst"] = "/d"
			}
			check(doc, "enum:"+p)
			// and inside an override block
			od := docFor(kinds, "overrides.{}."+p, v, -1)
			if strings.HasPrefix(p, "contents") {
				od["overrides"].(map[string]any)["deb"].(map[string]any)["contents"].([]any)[0].(map[string]any)["dst"] = "/d"
			}
			if _, ok := kinds["overrides.{}."+p]; ok {
				check(od, "enum-override:"+p)
			}
		}
	}
	// random larger documents built from several paths
	r := c.R.Fork("c17")
	for i := 0; i < c.N(200, 5000); i++ {
		doc := map[string]any{"name": "p", "arch": "amd64", "version": "1.0.0"}
		for j := 0; j < 2+r.Intn(8); j++ {
			p := rng.Pick(r, order)
			var leaf any = leafFor(kinds[p])
			if kinds[p] == "time" {
				leaf = "2023-11-14T22:13:20Z"
			}
			if vals, ok := enumerated[strings.TrimPrefix(p, "overrides.{}.")]; ok {
				leaf = rng.Pick(r, vals)
			}
			mergeDoc(doc, docFor(kinds, p, leaf, -1))
		}
		fixRequired(doc)
		check(doc, "random")
	}
	// every registered packager as an override key (the schema must not know fewer formats than the parser)
	for _, f := range nfpm.Enumerate() {
		check(map[string]any{"name": "p", "arch": "amd64", "version": "1.0.0",
			"overrides": map[string]any{f: map[string]any{"depends": []any{"x"}, "umask": 18}}}, "override-key:"+f)
	}
	// the other direction, from the schema's side: every key path the emitted schema allows must be a key path
	// the strict parser knows; for a path it does not know the one-key document is the failing input
	sk := map[string]string{}
	c17SchemaPaths(root, root, "", sk, 0)
	famS := 0
	for sp, kind := range sk {
		if _, known := kinds[sp]; known {
			continue
		}
		famS++
		doc := docFor(sk, sp, leafFor(kind), -1)
		fixRequired(doc)
		check(doc, "schema-only-path:"+sp)
	}
	fam2.Distribution["schema-key-paths"] = len(sk)
	fam2.Distribution["schema-key-paths-unknown-to-parser"] = famS
	// the emitted schema must not use a keyword the harness validator does not interpret: the check could no longer decide
	unk := map[string]bool{}
	c17UnknownKeywords(root, false, unk)
	if len(unk) > 0 {
		var ks []string
		for k := range unk {
			ks = append(ks, k)
		}
		sort.Strings(ks)
		c.Rep.Disagree(report.Disagreement{Family: "accepts-implies-validates", What: "the emitted schema uses keywords the harness validator does not interpret", Input: map[string]any{"keywords": ks},
			Model: "type/properties/additionalProperties/required/items/enum/pattern/propertyNames/const", Impl: strings.Join(ks, ",")})
	}
	// second opinion on every accepted document: a full JSON-Schema implementation (python jsonschema), one process
	if py, err := exec.LookPath("python3-vt"); err == nil && len(accepted) > 0 {
		docsFile := filepath.Join(c.Tmp, "c17-accepted.jsonl")
		_ = os.WriteFile(docsFile, []byte(strings.Join(accepted, "\n")+"\n"), 0o644)
		script := "import json,sys,jsonschema\ns=json.load(open(sys.argv[1]))\nv=jsonschema.validators.validator_for(s)(s)\nfor i,l in enumerate(open(sys.argv[2])):\n  e=sorted(v.iter_errors(json.loads(l)),key=str)\n  if e: print(i, e[0].message[:200].replace(chr(10),' '))\n"
		out, err := exec.Command(py, "-c", script, outFile, docsFile).CombinedOutput()
		fam2.Distribution["documents-revalidated-with-python-jsonschema"] = len(accepted)
		if err != nil {
			c.Rep.Note("python jsonschema second opinion failed: %v: %.300s", err, out)
		}
		for _, line := range strings.Split(strings.TrimSpace(string(out)), "\n") {
			var idx int
			if n, _ := fmt.Sscanf(line, "%d", &idx); n == 1 && idx >= 0 && idx < len(accepted) && err == nil {
				c.Rep.Find(report.Finding{Property: "C17", Family: "accepts-implies-validates", Shape: "schema-rejects-accepted-document:second-opinion",
					What: "the strict parser accepts the document but the emitted schema rejects it (python jsonschema): " + line, Input: map[string]any{"document_json": accepted[idx]}})
			}
		}
	}
	// ---- every value of an enumerated setting that the packagers can build with must validate.  The candidates
	// are not a fixed list: every short string literal of the packager's source is tried (whatever value the code
	// compares a setting with is one of them), so a value a packager newly understands is found without being named.
	{
		fam3 := c.Rep.Family("buildable-settings-validate", "for deb.compression, rpm.compression and contents[].type (version_schema: the documented names only, since every string is accepted and means semver unless it is 'none'; the two entry types planning derives itself are left out): every short string literal occurring in the non-test source of the packager concerned (deb/*.go, rpm/*.go + the compression names of the other packager, files/*.go, nfpm.go) plus the values of the fixed lists, tried as the setting's value on an otherwise minimal configuration: when the document parses and the package builds, the emitted schema must validate the document; one evaluation per candidate; non-trivial = the package builds")
		tree, terr := MkTree(filepath.Join(c.Tmp, "c17src"), 0)
		if terr != nil {
			return terr
		}
		lits := func(globs ...string) []string {
			seen := map[string]bool{}
			re := regexp.MustCompile(`"([A-Za-z0-9:._|+ -]{1,20})"`)
			for _, g := range globs {
				ms, _ := filepath.Glob(filepath.Join(c.Repo, g))
				for _, f := range ms {
					if strings.HasSuffix(f, "_test.go") {
						continue
					}
					b, err := os.ReadFile(f)
					if err != nil {
						continue
					}
					for _, m := range re.FindAllStringSubmatch(string(b), -1) {
						seen[m[1]] = true
					}
				}
			}
			var out []string
			for v := range seen {
				out = append(out, v)
			}
			sort.Strings(out)
			return out
		}
		type setting struct {
			path   string
			format string
			cands  []string
			doc    func(v string) map[string]any
		}
		base := func() map[string]any {
			return map[string]any{"name": "p", "arch": "amd64", "version": "1.0.0",
				"contents": []any{map[string]any{"src": filepath.Join(tree.Root, "bin/tool"), "dst": "/usr/bin/tool"}}}
		}
		settings := []setting{
			{"deb.compression", "deb", append(lits("deb/*.go", "rpm/*.go"), enumerated["deb.compression"]...), func(v string) map[string]any {
				d := base()
				d["deb"] = map[string]any{"compression": v}
				return d
			}},
			{"rpm.compression", "rpm", append(lits("rpm/*.go", "deb/*.go"), enumerated["rpm.compression"]...), func(v string) map[string]any {
				d := base()
				d["rpm"] = map[string]any{"compression": v}
				return d
			}},
			{"contents.[].type", "rpm", append(lits("files/*.go"), enumerated["contents.[].type"]...), func(v string) map[string]any {
				d := base()
				e := map[string]any{"src": filepath.Join(tree.Root, "etc/app.conf"), "dst": "/etc/app/app.conf", "type": v}
				if v == "symlink" {
					e["src"] = "/usr/bin/tool"
				}
				if v == "dir" || v == "ghost" {
					delete(e, "src")
				}
				if v == "tree" {
					e["src"] = filepath.Join(tree.Root, "tree")
				}
				d["contents"] = append(d["contents"].([]any), e)
				return d
			}},
			// version_schema: every string is accepted and every string but "none" means semver, so there is nothing
			// to discover beyond the documented names
			{"version_schema", "deb", enumerated["version_schema"], func(v string) map[string]any {
				d := base()
				d["version_schema"] = v
				return d
			}},
		}
		for _, st := range settings {
			done := map[string]bool{}
			// and the setting given as a reference to the environment, resolving to a documented value: if the parser
			// substitutes it and the package builds, the schema must allow such a document
			envValue := ""
			if vs := enumerated[st.path]; len(vs) > 0 {
				envValue = vs[0]
			}
			extra := []string{"${VERIF_SETTING}", "$VERIF_SETTING"}
			if st.path == "version_schema" {
				extra = nil // every string is accepted there and means semver unless it is "none"
			}
			for _, v := range append(append([]string{}, st.cands...), extra...) {
				if done[v] {
					continue
				}
				done[v] = true
				if st.path == "contents.[].type" && (v == files.TypeImplicitDir || v == files.TypeDebChangelog) {
					continue // entry types that planning itself derives (implied parents, the generated deb changelog): not settings
				}
				doc := st.doc(v)
				yb, _ := yaml.Marshal(doc)
				cfg, perr := nfpm.ParseWithEnvMapping(bytes.NewReader(yb), func(k string) string {
					if k == "VERIF_SETTING" {
						return envValue
					}
					return ""
				})
				builds := false
				if perr == nil {
					if info, gerr := cfg.Get(st.format); gerr == nil {
						_, berr := BuildPkg(st.format, nfpm.WithDefaults(info))
						builds = berr == nil
					}
				}
				fam3.Eval(st.path+"="+v, builds)
				if !builds {
					continue
				}
				fam3.Count(st.path + ":builds")
				jb, _ := json.Marshal(doc)
				var jd any
				_ = json.Unmarshal(jb, &jd)
				if verrs := validateSchema(root, root, jd, "$"); len(verrs) > 0 {
					c.Rep.Find(report.Finding{Property: "C17", Family: "buildable-settings-validate", Shape: "schema-rejects-buildable-setting:" + st.path,
						What:  fmt.Sprintf("%s: %q parses and the %s package builds, but the emitted schema rejects the document: %s", st.path, v, st.format, strings.Join(verrs, "; ")),
						Input: map[string]any{"setting": st.path, "value": v, "document": string(yb)}})
				}
			}
		}
	}
	// cross-check of the harness validator with python jsonschema when installed
	if py, err := exec.LookPath("python3-vt"); err == nil {
		doc := map[string]any{"name": "p", "arch": "amd64", "version": "1.0.0", "deb": map[string]any{"compression": "bogus"}}
		jb, _ := json.Marshal(doc)
		script := "import json,sys,jsonschema\ns=json.load(open(sys.argv[1]))\ntry:\n jsonschema.validate(json.loads(sys.argv[2]),s); print('valid')\nexcept Exception as e: print('invalid')\n"
		out, err := exec.Command(py, "-c", script, outFile, string(jb)).Output()
		mine := len(validateSchema(root, root, mustJSON(jb), "$")) == 0
		if err == nil && (strings.TrimSpace(string(out)) == "valid") != mine {
			c.Rep.Note("harness validator and python jsonschema disagree on %s", jb)
		}
	}
	return nil
}

// c17Keywords are the JSON-Schema keywords validateSchema interprets (or that carry no constraint).
var c17Keywords = map[string]bool{"$schema": true, "$id": true, "$ref": true, "$defs": true, "type": true, "properties": true,
	"additionalProperties": true, "required": true, "items": true, "enum": true, "pattern": true, "propertyNames": true, "const": true,
	"title": true, "description": true, "default": true, "examples": true, "format": true}

// c17UnknownKeywords walks the emitted schema and returns every keyword outside c17Keywords.
func c17UnknownKeywords(node any, inProps bool, out map[string]bool) {
	switch x := node.(type) {
	case map[string]any:
		for k, v := range x {
			if !inProps && !c17Keywords[k] {
				out[k] = true
			}
			// the children of "properties" / "$defs" are names, not keywords
			c17UnknownKeywords(v, !inProps && (k == "properties" || k == "$defs"), out)
		}
	case []any:
		for _, v := range x {
			c17UnknownKeywords(v, false, out)
		}
	}
}

// c17SchemaPaths lists the key paths of the emitted schema in the notation of the reflected key tree
// ("a.b", ".[]" for list items, ".{}" for map values) with the kind of each path.
func c17SchemaPaths(root, node map[string]any, prefix string, out map[string]string, depth int) {
	if depth > 12 {
		return
	}
	if ref, ok := node["$ref"].(string); ok {
		defs, _ := root["$defs"].(map[string]any)
		if d, ok := defs[strings.TrimPrefix(ref, "#/$defs/")].(map[string]any); ok {
			c17SchemaPaths(root, d, prefix, out, depth+1)
		}
		return
	}
	join := func(k string) string {
		if prefix == "" {
			return k
		}
		return prefix + "." + k
	}
	switch t, _ := node["type"].(string); t {
	case "object":
		if prefix != "" {
			out[prefix] = "object"
		}
		if props, ok := node["properties"].(map[string]any); ok {
			for k, v := range props {
				if m, ok := v.(map[string]any); ok {
					c17SchemaPaths(root, m, join(k), out, depth+1)
				}
			}
		}
		if ap, ok := node["additionalProperties"].(map[string]any); ok {
			out[prefix] = "map"
			c17SchemaPaths(root, ap, join("{}"), out, depth+1)
		}
	case "array":
		out[prefix] = "list"
		if it, ok := node["items"].(map[string]any); ok {
			c17SchemaPaths(root, it, join("[]"), out, depth+1)
		}
	case "integer":
		out[prefix] = "int"
	case "boolean":
		out[prefix] = "bool"
	case "string":
		if f, _ := node["format"].(string); f == "date-time" {
			out[prefix] = "time"
		} else {
			out[prefix] = "string"
		}
	default:
		if prefix != "" {
			out[prefix] = "string"
		}
	}
}

func mustJSON(b []byte) any {
	var v any
	_ = json.Unmarshal(b, &v)
	return v
}

func mergeDoc(dst, src map[string]any) {
	for k, v := range src {
		if dm, ok := dst[k].(map[string]any); ok {
			if sm, ok := v.(map[string]any); ok {
				mergeDoc(dm, sm)
				continue
			}
		}
		if _, exists := dst[k]; !exists {
			dst[k] = v
		}
	}
}

// fixRequired adds dst to content entries (documented-required)
func fixRequired(doc any) {
	switch x := doc.(type) {
	case map[string]any:
		for k, v := range x {
			if k == "contents" {
				if l, ok := v.([]any); ok {
					for _, e := range l {
						if m, ok := e.(map[string]any); ok {
							if _, ok := m["dst"]; !ok {
								m["dst"] = "/d"
							}
						}
					}
				}
			}
			fixRequired(v)
		}
	case []any:
		for _, v := range x {
			fixRequired(v)
		}
	}
}
