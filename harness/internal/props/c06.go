package props

import (
	"bytes"
	"errors"
	"fmt"
	"io"
	"io/fs"
	"net"
	"os"
	"os/exec"
	"path/filepath"
	"sort"
	"strconv"
	"strings"
	"sync"

	"github.com/goreleaser/nfpm/v2"
	"github.com/goreleaser/nfpm/v2/files"
	"verif/harness/internal/report"
	"verif/harness/internal/rng"
	"verif/harness/internal/wire"
)

func init() { Registry["C06"] = runC06 }

// errInjected is what the destination writer reports in the "error" variant.
var errInjected = errors.New("c06: injected write failure")

// countingWriter accepts everything and records the size of every Write call.
type countingWriter struct {
	mu    sync.Mutex
	sizes []int
	total int
}

func (w *countingWriter) Write(p []byte) (int, error) {
	w.mu.Lock()
	defer w.mu.Unlock()
	w.sizes = append(w.sizes, len(p))
	w.total += len(p)
	return len(p), nil
}

// faultWriter fails the k-th Write call (0-based) and every call after it.
type faultWriter struct {
	mu        sync.Mutex
	k         int
	short     bool
	calls     int
	buf       bytes.Buffer
	tripped   bool
	failSize  int
	failFirst byte
	err       error
}

func (w *faultWriter) Write(p []byte) (int, error) {
	w.mu.Lock()
	defer w.mu.Unlock()
	i := w.calls
	w.calls++
	if w.tripped {
		return 0, w.err
	}
	if i == w.k {
		w.tripped = true
		w.failSize = len(p)
		if len(p) > 0 {
			w.failFirst = p[0]
		}
		if w.short {
			h := len(p) / 2
			w.buf.Write(p[:h])
			w.err = io.ErrShortWrite
			return h, w.err
		}
		w.err = errInjected
		return 0, w.err
	}
	w.buf.Write(p)
	return len(p), nil
}

// safePackage runs the registered packager and turns a panic into a value.
func safePackage(format string, info *nfpm.Info, w io.Writer) (err error, panicked any) {
	p, gerr := nfpm.Get(format)
	if gerr != nil {
		return gerr, nil
	}
	defer func() {
		if r := recover(); r != nil {
			panicked = r
		}
	}()
	return p.Package(info, w), nil
}

func wBucket(w int) string {
	switch {
	case w <= 4:
		return "W<=4"
	case w <= 8:
		return "W<=8"
	case w <= 16:
		return "W<=16"
	}
	return "W>16"
}

// arMemberSizes scans an ar archive: member name -> declared size.
func arMemberSizes(data []byte) map[string]int {
	res := map[string]int{}
	if len(data) < 8 || string(data[:8]) != "!<arch>\n" {
		return res
	}
	off := 8
	for off+60 <= len(data) {
		name := strings.TrimRight(string(data[off:off+16]), " ")
		size, err := strconv.Atoi(strings.TrimSpace(string(data[off+48 : off+58])))
		if err != nil {
			return res
		}
		res[name] = size
		off += 60 + size + size%2
	}
	return res
}

func debDataLen(data []byte) int {
	for n, s := range arMemberSizes(data) {
		if strings.HasPrefix(n, "data.tar") {
			return s
		}
	}
	return -1
}

type c06Keys struct{ pgp, rsa string }

func c06KeyFiles(repo string) c06Keys {
	d := filepath.Join(repo, "internal", "sign", "testdata")
	return c06Keys{pgp: filepath.Join(d, "privkey_unprotected.asc"), rsa: filepath.Join(d, "rsa_unprotected.priv")}
}

// c06Sign adds the signing key files to a spec (deb and rpm: PGP; apk: RSA).
func c06Sign(s *PkgSpec, k c06Keys) {
	inner := s.Mutate
	s.Mutate = func(info *nfpm.Info) {
		if inner != nil {
			inner(info)
		}
		info.Deb.Signature.KeyFile = k.pgp
		info.RPM.Signature.KeyFile = k.pgp
		info.APK.Signature.KeyFile = k.rsa
	}
	d := map[string]any{}
	for key, v := range s.Describe {
		d[key] = v
	}
	d["signed"] = "deb+rpm:" + filepath.Base(k.pgp) + " apk:" + filepath.Base(k.rsa)
	s.Describe = d
}

func c06Signed(s *PkgSpec) bool { _, ok := s.Describe["signed"]; return ok }

// c06FixedSpec: a small content list around one file of n pseudo-random bytes.
func c06FixedSpec(tree *SrcTree, dir string, r *rng.R, n int, dc, rc string) (*PkgSpec, error) {
	b := make([]byte, n)
	for i := range b {
		b[i] = byte(r.Intn(256))
	}
	p := filepath.Join(dir, fmt.Sprintf("var-%s-%d.bin", dc, n))
	if err := os.WriteFile(p, b, 0o644); err != nil {
		return nil, err
	}
	s := &PkgSpec{
		Raw: []wire.Content{
			{Src: p, Dst: "/usr/bin/var"},
			{Src: filepath.Join(tree.Root, "etc/app.conf"), Dst: "/etc/app/app.conf", Type: "config"},
			{Dst: "/var/lib/app", Type: "dir"},
			{Src: "/usr/bin/var", Dst: "/usr/bin/varlink", Type: "symlink"},
		},
		Umask: 0o022, MTime: 1700000000,
	}
	s.Mutate = func(info *nfpm.Info) {
		info.Deb.Compression = dc
		info.RPM.Compression = rc
	}
	s.Describe = map[string]any{"deb.compression": dc, "rpm.compression": rc, "var_file_bytes": n}
	return s, nil
}

func writeFaultCase(c *Ctx, fam *report.Family, s *PkgSpec, idx int, format string) {
	cw := &countingWriter{}
	if err, pv := safePackage(format, s.Info(), cw); err != nil || pv != nil {
		fam.Count("skipped:fault-free-build-fails")
		return
	}
	W := len(cw.sizes)
	fam.Count(format + ":" + wBucket(W))
	if c06Signed(s) {
		fam.Count(format + ":signed-config")
	}
	if format == "deb" {
		var probe bytes.Buffer
		if p, err := nfpm.Get(format); err == nil && p.Package(s.Info(), &probe) == nil {
			if l := debDataLen(probe.Bytes()); l >= 0 {
				dc := fmt.Sprint(s.Describe["deb.compression"])
				if dc == "" {
					dc = "default"
				}
				fam.Count(fmt.Sprintf("deb:data-member-%s:%s", []string{"even", "odd"}[l%2], dc))
			}
		}
	}
	if len(fam.Samples) < 2 && (len(fam.Samples) == 0 || W > 2) {
		fam.Sample(map[string]any{"format": format, "W": W, "write_sizes": append([]int{}, cw.sizes...), "bytes": cw.total, "spec": s.Input()})
	}
	var nilAt []string
	defer func() {
		if len(nilAt) > 0 && W > 2 && len(fam.Samples) < 5 {
			fam.Sample(map[string]any{"format": format, "W": W, "write_sizes": append([]int{}, cw.sizes...), "nil_error_at_k:variant": nilAt, "spec": s.Describe})
		}
	}()
	for k := 0; k < W; k++ {
		for _, variant := range []string{"error", "short"} {
			fw := &faultWriter{k: k, short: variant == "short"}
			err, pv := safePackage(format, s.Info(), fw)
			fam.Eval(fmt.Sprintf("%s|%d|%d|%s", format, idx, k, variant), fw.tripped)
			if !fw.tripped {
				// the stream of this run had fewer writes than the counted one
				fam.Count(format + ":fault-not-reached")
				continue
			}
			in := s.Input()
			in["format"] = format
			in["k"] = k
			in["W"] = W
			in["failing_write_size"] = fw.failSize
			in["variant"] = variant
			in["bytes_accepted_before_failure"] = fw.buf.Len()
			in["bytes_of_complete_output"] = cw.total
			if pv != nil {
				fam.Count(format + ":panic")
				c.Rep.Find(report.Finding{Property: "C06", Family: "write-faults", Shape: format + ":panic-on-write-fault",
					What: fmt.Sprintf("%s packager panics (%v) when write %d of %d fails (%s)", format, pv, k, W, variant), Input: in})
				continue
			}
			if err == nil {
				class := "write"
				switch {
				case format == "deb" && fw.failSize == 1 && fw.failFirst == '\n':
					class = "pad-byte"
				case format == "archlinux":
					class = "close-time-write"
				}
				fam.Count(format + ":nil-error:" + class)
				nilAt = append(nilAt, fmt.Sprintf("%d:%s", k, variant))
				c.Rep.Find(report.Finding{Property: "C06", Family: "write-faults", Shape: format + ":nil-error-on-write-fault:" + class,
					What: fmt.Sprintf("%s Package returns nil although write %d of %d (%d bytes) to the destination failed (%s variant); %d of %d bytes were accepted",
						format, k, W, fw.failSize, variant, fw.buf.Len(), cw.total), Input: in})
				continue
			}
			fam.Count(format + ":error-returned")
			if errors.Is(err, fw.err) {
				fam.Count(format + ":error-wraps-writer-error:yes")
			} else {
				fam.Count(format + ":error-wraps-writer-error:no (" + strings.SplitN(err.Error(), ":", 2)[0] + ")")
			}
		}
	}
}

func runWriteFaults(c *Ctx, tree *SrcTree) error {
	fam := c.Rep.Family("write-faults", "per configuration and format the fault-free run is packaged into a counting writer (W Write calls); then exhaustively for every k in [0,W) and both variants (error: k-th Write returns (0, injected error); short: k-th Write accepts len/2 bytes and returns io.ErrShortWrite; every later Write fails too) a fresh Info is packaged into the faulty writer and a non-nil error is required. Configurations: fixed ones with deb compression gzip/xz/zstd/none, gzip ones searched for an odd and an even data member length, signed ones (deb+rpm PGP key file, apk RSA key file), then random genPkgSpec configurations (a third of them signed); mtime pinned so the stream is the same in every run. Exhaustive in (k, variant) per configuration, configurations are sampled. non-trivial = the k-th write was reached")
	fam.Exhaustive = true
	r := c.R.Fork("c06")
	keys := c06KeyFiles(c.Repo)
	dir := filepath.Join(c.Tmp, "c06var")
	if err := os.MkdirAll(dir, 0o755); err != nil {
		return err
	}
	type job struct {
		s       *PkgSpec
		formats []string
	}
	var jobs []job
	rcs := []string{"gzip", "xz", "zstd", "lzma"}
	for i, dc := range []string{"gzip", "xz", "zstd", "none"} {
		s, err := c06FixedSpec(tree, dir, r, 7+i, dc, rcs[i])
		if err != nil {
			return err
		}
		jobs = append(jobs, job{s, Formats})
	}
	// one gzip deb with an odd data member and one with an even data member
	found := map[int]bool{}
	for n := 1; n <= 400 && len(found) < 2; n++ {
		s, err := c06FixedSpec(tree, dir, r, n, "gzip", "")
		if err != nil {
			return err
		}
		data, err := BuildPkg("deb", s.Info())
		if err != nil {
			continue
		}
		l := debDataLen(data)
		if l < 0 || found[l%2] {
			continue
		}
		found[l%2] = true
		s.Describe["deb.data_member_bytes"] = l
		jobs = append(jobs, job{s, []string{"deb"}})
		// the same configuration signed: the signature member then follows the data member
		ss, _ := c06FixedSpec(tree, dir, r, n, "gzip", "")
		ss.Describe["deb.data_member_bytes"] = l
		c06Sign(ss, keys)
		jobs = append(jobs, job{ss, []string{"deb"}})
	}
	if len(found) < 2 {
		c.Rep.Note("write-faults: parity search found only parities %v of the deb data member", found)
	}
	// signed variants for the three formats that sign
	for i, dc := range []string{"gzip", "none"} {
		s, err := c06FixedSpec(tree, dir, r, 20+i, dc, rcs[i])
		if err != nil {
			return err
		}
		c06Sign(s, keys)
		jobs = append(jobs, job{s, []string{"deb", "rpm", "apk"}})
	}
	// an incompressible payload of several zstd blocks: the archlinux stream then has writes before Close
	for _, n := range []int{300000, 1500000} {
		s, err := c06FixedSpec(tree, dir, r, n, "none", "gzip")
		if err != nil {
			return err
		}
		jobs = append(jobs, job{s, []string{"archlinux", "deb", "apk"}})
	}
	for i := 0; i < c.N(4, 150); i++ {
		s := genPkgSpec(r, tree)
		if s.MTime == wire.ZeroTime {
			s.MTime = 1700000000 // the clock would make the stream differ between runs
		}
		if r.Chance(1, 3) {
			c06Sign(s, keys)
		}
		jobs = append(jobs, job{s, Formats})
	}
	for i, j := range jobs {
		for _, f := range j.formats {
			writeFaultCase(c, fam, j.s, i, f)
		}
	}
	return nil
}

// ---- source faults ----

type c06Ref struct {
	name    string
	kind    string // content-source, script, changelog, key-file
	path    string // the copy under Tmp (for a glob: the pattern)
	remove  string // what is renamed away to make the reference unreadable
	formats []string
}

func copyFileTo(src, dst string) error {
	b, err := os.ReadFile(src)
	if err != nil {
		return err
	}
	return os.WriteFile(dst, b, 0o644)
}

func runSourceFaults(c *Ctx) error {
	fam := c.Rep.Family("source-faults", "one rich configuration (plain file, config file, glob, tree, symlink; the four lifecycle scripts and every format-specific script; a changelog file; signing key files for deb, rpm, apk), every referenced file a private copy. Exhaustively for every file reference (incl. the sources of the rpm-only entry types doc, licence, license, readme) x every format that uses it x four ways of making it unreadable (setting repointed to a path that does not exist; the copy renamed away; setting repointed to a symbolic link whose target does not exist, setting repointed to a directory - both for scripts, changelog, key files and the rpm-only entry types, whose content must be read; a file, config or tree source that is a symbolic link is shipped as that link), and for the plain, config and tree sources both again with disable_globbing (the source is then not matched up front, the packager meets the missing file when it reads it): Package must return a non-nil error; the reference is restored afterwards and the fault-free configuration re-checked at the end. The symlink entry is not a file reference (its source is the link text). non-trivial = always")
	fam.Exhaustive = true
	dir := filepath.Join(c.Tmp, "c06refs")
	for _, d := range []string{"", "globdir", "treedir", "treedir/sub", "scripts", "gone"} {
		if err := os.MkdirAll(filepath.Join(dir, d), 0o755); err != nil {
			return err
		}
	}
	w := func(rel, body string) string {
		p := filepath.Join(dir, rel)
		_ = os.WriteFile(p, []byte(body), 0o644)
		return p
	}
	keys := c06KeyFiles(c.Repo)
	var refs []*c06Ref
	add := func(r *c06Ref) {
		if r.remove == "" {
			r.remove = r.path
		}
		refs = append(refs, r)
	}
	add(&c06Ref{name: "contents.plain", kind: "content-source", path: w("plain.bin", "plain-binary\n"), formats: Formats})
	add(&c06Ref{name: "contents.config", kind: "content-source", path: w("app.conf", "key=value\n"), formats: Formats})
	w("globdir/a.conf", "a=1\n")
	w("globdir/b.conf", "b=22\n")
	add(&c06Ref{name: "contents.glob", kind: "content-source", path: filepath.Join(dir, "globdir", "*.conf"), remove: filepath.Join(dir, "globdir"), formats: Formats})
	w("treedir/top.txt", "top\n")
	w("treedir/sub/leaf", "leaf\n")
	add(&c06Ref{name: "contents.tree", kind: "content-source", path: filepath.Join(dir, "treedir"), formats: Formats})
	// the entry types only rpm ships (they take their source literally, no glob matching up front)
	for _, ty := range []string{"doc", "licence", "license", "readme"} {
		add(&c06Ref{name: "contents." + ty, kind: "content-source", path: w(ty+".txt", ty+" text\n"), formats: []string{"rpm"}})
	}
	allSel := map[string][]string{}
	var selOrder []string
	for _, f := range Formats {
		for _, sel := range scriptSelectors[f] {
			if _, ok := allSel[sel]; !ok {
				selOrder = append(selOrder, sel)
			}
			allSel[sel] = append(allSel[sel], f)
		}
	}
	for _, sel := range selOrder {
		add(&c06Ref{name: sel, kind: "script", path: w("scripts/"+sel+".sh", "#!/bin/sh\necho "+sel+"\n"), formats: allSel[sel]})
	}
	chlog := filepath.Join(dir, "changelog.yaml")
	if err := copyFileTo(filepath.Join(c.Repo, "testdata", "changelog.yaml"), chlog); err != nil {
		return err
	}
	add(&c06Ref{name: "Changelog", kind: "changelog", path: chlog, formats: []string{"deb", "rpm"}})
	for _, kf := range []struct{ name, src, f string }{{"Deb.Signature.KeyFile", keys.pgp, "deb"}, {"RPM.Signature.KeyFile", keys.pgp, "rpm"}, {"APK.Signature.KeyFile", keys.rsa, "apk"}} {
		p := filepath.Join(dir, "key-"+kf.f+filepath.Ext(kf.src))
		if err := copyFileTo(kf.src, p); err != nil {
			return err
		}
		add(&c06Ref{name: kf.name, kind: "key-file", path: p, formats: []string{kf.f}})
	}
	mk := func(over map[string]string, noglob bool) *nfpm.Info {
		at := func(name string) string {
			if p, ok := over[name]; ok {
				return p
			}
			for _, r := range refs {
				if r.name == name {
					return r.path
				}
			}
			panic("unknown reference " + name)
		}
		s := &PkgSpec{Umask: 0o022, MTime: 1700000000, Raw: []wire.Content{
			{Src: at("contents.plain"), Dst: "/usr/bin/plain"},
			{Src: at("contents.config"), Dst: "/etc/app/app.conf", Type: "config"},
			{Src: at("contents.glob"), Dst: "/etc/app/conf.d"},
			{Src: at("contents.tree"), Dst: "/usr/share/app", Type: "tree"},
			{Src: "/usr/bin/plain", Dst: "/usr/bin/plainlink", Type: "symlink"},
			{Src: at("contents.doc"), Dst: "/usr/share/doc/app/MANUAL", Type: "doc"},
			{Src: at("contents.licence"), Dst: "/usr/share/doc/app/LICENCE", Type: "licence"},
			{Src: at("contents.license"), Dst: "/usr/share/doc/app/LICENSE", Type: "license"},
			{Src: at("contents.readme"), Dst: "/usr/share/doc/app/README", Type: "readme"},
		}}
		if noglob {
			// with globbing disabled a source is taken literally and first touched when it is read;
			// the glob entry itself cannot be part of this configuration
			s.NoGlob = true
			s.Raw = append(s.Raw[:2:2], s.Raw[3:]...)
		}
		info := s.Info()
		for _, sel := range selOrder {
			setScript(info, sel, at(sel))
		}
		info.Changelog = at("Changelog")
		info.Deb.Signature.KeyFile = at("Deb.Signature.KeyFile")
		info.RPM.Signature.KeyFile = at("RPM.Signature.KeyFile")
		info.APK.Signature.KeyFile = at("APK.Signature.KeyFile")
		return info
	}
	baseline := func(when string) bool {
		ok := true
		for _, f := range Formats {
			for _, ng := range []bool{false, true} {
				if _, err := BuildPkg(f, mk(nil, ng)); err != nil {
					c.Rep.Note("source-faults: fault-free rich configuration fails for %s (%s, disable_globbing=%v): %v", f, when, ng, err)
					ok = false
				}
			}
		}
		return ok
	}
	if !baseline("before") {
		return nil
	}
	var names []string
	for _, r := range refs {
		names = append(names, r.name)
	}
	fam.Sample(map[string]any{"references": names})
	for _, r := range refs {
		for _, f := range r.formats {
			variants := []string{"repointed", "renamed-away"}
			rpmOnlyType := strings.HasPrefix(r.name, "contents.doc") || strings.HasPrefix(r.name, "contents.lic") || r.name == "contents.readme"
			if r.kind != "content-source" || rpmOnlyType {
				// the setting names a symbolic link whose target does not exist (a link left behind by a cleaned build
				// directory): lstat succeeds, reading fails.  Not for file / config / tree sources: a source that is a
				// symbolic link is shipped as that link, with its literal target (C01), so nothing needs to be read
				variants = append(variants, "dangling-symlink", "directory-in-its-place")
			}
			if r.kind == "content-source" && r.name != "contents.glob" && !rpmOnlyType {
				variants = append(variants, "repointed+disable_globbing", "renamed-away+disable_globbing")
			}
			if r.kind == "content-source" && r.name != "contents.glob" && r.name != "contents.tree" {
				// the source exists but is nothing that can be read: a unix socket left behind by a service (open fails)
				variants = append(variants, "socket-in-its-place")
			}
			for _, variant := range variants {
				noglob := strings.HasSuffix(variant, "+disable_globbing")
				var err error
				var pv any
				missing := r.path
				switch strings.TrimSuffix(variant, "+disable_globbing") {
				case "repointed":
					missing = filepath.Join(dir, "gone", "missing-"+filepath.Base(r.remove))
					if r.remove != r.path { // glob: pattern under a directory that does not exist
						missing = filepath.Join(missing, filepath.Base(r.path))
					}
					err, pv = safePackage(f, mk(map[string]string{r.name: missing}, noglob), io.Discard)
				case "directory-in-its-place":
					// the path opens but cannot be read as a file
					missing = filepath.Join(dir, "gone", "directory-"+filepath.Base(r.path))
					if merr := os.MkdirAll(missing, 0o755); merr != nil {
						c.Rep.Note("source-faults: mkdir %s: %v", missing, merr)
						continue
					}
					err, pv = safePackage(f, mk(map[string]string{r.name: missing}, noglob), io.Discard)
				case "socket-in-its-place":
					_ = os.MkdirAll(filepath.Join(dir, "gone"), 0o755)
					missing = filepath.Join(dir, "gone", "s-"+f)
					_ = os.Remove(missing)
					l, lerr := net.Listen("unix", missing)
					if lerr != nil {
						c.Rep.Note("source-faults: socket %s: %v", missing, lerr)
						continue
					}
					l.(*net.UnixListener).SetUnlinkOnClose(false)
					_ = l.Close()
					err, pv = safePackage(f, mk(map[string]string{r.name: missing}, noglob), io.Discard)
				case "dangling-symlink":
					missing = filepath.Join(dir, "gone", "dangling-"+filepath.Base(r.path))
					_ = os.Remove(missing)
					if serr := os.Symlink(filepath.Join(dir, "gone", "no-such-target-"+filepath.Base(r.path)), missing); serr != nil {
						c.Rep.Note("source-faults: symlink %s: %v", missing, serr)
						continue
					}
					err, pv = safePackage(f, mk(map[string]string{r.name: missing}, noglob), io.Discard)
				default:
					away := r.remove + ".away"
					if rerr := os.Rename(r.remove, away); rerr != nil {
						c.Rep.Note("source-faults: rename %s: %v", r.remove, rerr)
						continue
					}
					err, pv = safePackage(f, mk(nil, noglob), io.Discard)
					if rerr := os.Rename(away, r.remove); rerr != nil {
						return fmt.Errorf("source-faults: cannot restore %s: %v", r.remove, rerr)
					}
				}
				fam.Eval(f+"|"+r.name+"|"+variant, true)
				fam.Count(f + ":" + r.kind)
				if noglob {
					fam.Count(f + ":failure-first-seen-at-read-time")
				}
				in := map[string]any{"format": f, "reference": r.name, "kind": r.kind, "variant": variant, "missing_path": missing}
				switch {
				case pv != nil:
					c.Rep.Find(report.Finding{Property: "C06", Family: "source-faults", Shape: f + ":panic-on-missing:" + r.kind,
						What: fmt.Sprintf("%s packager panics (%v) when %s is missing", f, pv, r.name), Input: in})
				case err == nil:
					c.Rep.Find(report.Finding{Property: "C06", Family: "source-faults", Shape: f + ":nil-error-on-missing:" + r.kind,
						What: fmt.Sprintf("%s Package returns nil although the file referenced by %s cannot be read (%s)", f, r.name, variant), Input: in})
				default:
					if strings.Contains(err.Error(), strings.TrimSuffix(filepath.Base(r.remove), ".away")) || strings.Contains(err.Error(), filepath.Base(missing)) {
						fam.Count("error-names-the-path:yes")
					} else {
						fam.Count("error-names-the-path:no")
						if len(fam.Samples) < 3 {
							fam.Sample(map[string]any{"error_without_path": err.Error(), "input": in})
						}
					}
				}
			}
		}
	}
	baseline("after")
	return nil
}

// ---- invalid settings ----

func runInvalidSettings(c *Ctx, tree *SrcTree) {
	fam := c.Rep.Family("invalid-settings", "exhaustive list of invalid-setting classes x the formats they apply to, each on an otherwise valid one-file configuration: deb compression bogus; rpm compression bogus / gzip:notanumber / a:b:c; rpm epoch abc; deb signature type bogus with a key or with a signing callback, wrong case, the dpkg-sig role under debsign; platform darwin for apk and archlinux; archlinux name #bad; content type bogus; empty name; empty version; a relation with an operator rpm does not know at the first/middle/last place of each of the six relation lists (rpm); failing signing callback for deb (debsign and dpkg-sig), rpm, apk. Package must return a non-nil error. non-trivial = always")
	fam.Exhaustive = true
	keys := c06KeyFiles(c.Repo)
	signErr := errors.New("c06: signing callback refuses")
	failingSign := func(io.Reader) ([]byte, error) { return nil, signErr }
	type inv struct {
		class, label string
		formats      []string
		mut          func(*nfpm.Info)
	}
	cases := []inv{
		{"compression", "deb.compression=bogus", []string{"deb"}, func(i *nfpm.Info) { i.Deb.Compression = "bogus" }},
		{"compression", "rpm.compression=bogus", []string{"rpm"}, func(i *nfpm.Info) { i.RPM.Compression = "bogus" }},
		{"compression-level", "rpm.compression=gzip:notanumber", []string{"rpm"}, func(i *nfpm.Info) { i.RPM.Compression = "gzip:notanumber" }},
		{"compression-syntax", "rpm.compression=a:b:c", []string{"rpm"}, func(i *nfpm.Info) { i.RPM.Compression = "a:b:c" }},
		{"epoch", "epoch=abc", []string{"rpm"}, func(i *nfpm.Info) { i.Epoch = "abc" }},
		{"signature-type", "deb.signature.type=bogus with key_file", []string{"deb"}, func(i *nfpm.Info) {
			i.Deb.Signature.KeyFile = keys.pgp
			i.Deb.Signature.Type = "bogus"
		}},
		{"signature-type", "deb.signature.type=bogus with a signing callback and no key file", []string{"deb"}, func(i *nfpm.Info) {
			i.Deb.Signature.SignFn = func(io.Reader) ([]byte, error) { return []byte("sig"), nil }
			i.Deb.Signature.Type = "bogus"
		}},
		{"signature-type", "deb.signature.type=Origin (wrong case) with a signing callback", []string{"deb"}, func(i *nfpm.Info) {
			i.Deb.Signature.SignFn = func(io.Reader) ([]byte, error) { return []byte("sig"), nil }
			i.Deb.Signature.Type = "Origin"
		}},
		{"signature-type", "deb.signature.type=builder under method debsign with a key", []string{"deb"}, func(i *nfpm.Info) {
			i.Deb.Signature.KeyFile = keys.pgp
			i.Deb.Signature.Type = "builder"
		}},
		{"platform", "platform=darwin", []string{"apk", "archlinux"}, func(i *nfpm.Info) { i.Platform = "darwin" }},
		{"package-name", "name=#bad", []string{"archlinux"}, func(i *nfpm.Info) { i.Name = "#bad" }},
		{"content-type", "contents[].type=bogus", Formats, func(i *nfpm.Info) {
			i.Contents = append(i.Contents, &files.Content{Source: filepath.Join(tree.Root, "bin/tool"), Destination: "/usr/bin/bogus", Type: "bogus"})
		}},
		{"empty-name", "name=''", Formats, func(i *nfpm.Info) { i.Name = "" }},
		{"empty-version", "version='' (no WithDefaults)", Formats, func(i *nfpm.Info) { i.Version = "" }},
		{"sign-callback", "deb.signature.SignFn fails (debsign)", []string{"deb"}, func(i *nfpm.Info) { i.Deb.Signature.SignFn = failingSign }},
		{"sign-callback", "deb.signature.SignFn fails (dpkg-sig)", []string{"deb"}, func(i *nfpm.Info) {
			i.Deb.Signature.SignFn = failingSign
			i.Deb.Signature.Method = "dpkg-sig"
		}},
		{"sign-callback", "rpm.signature.SignFn fails", []string{"rpm"}, func(i *nfpm.Info) { i.RPM.Signature.SignFn = failingSign }},
		{"sign-callback", "apk.signature.SignFn fails", []string{"apk"}, func(i *nfpm.Info) { i.APK.Signature.SignFn = failingSign }},
	}
	// a relation rpm cannot express (an operator unknown to it), in each relation list in turn, first / middle / last
	// of the list, while every other list holds valid relations
	for _, list := range []string{"provides", "depends", "recommends", "suggests", "replaces", "conflicts"} {
		for pos := 0; pos < 3; pos++ {
			list, pos := list, pos
			cases = append(cases, inv{"relation-operator", fmt.Sprintf("%s[%d]='bash >> 4.0' (operator unknown to rpm), all other relation lists valid", list, pos), []string{"rpm"}, func(i *nfpm.Info) {
				valid := func(p string) []string { return []string{p + "-a", p + "-b >= 1.0"} }
				i.Provides, i.Depends, i.Recommends = valid("prov"), valid("dep"), valid("rec")
				i.Suggests, i.Replaces, i.Conflicts = valid("sug"), valid("rep"), valid("con")
				bad := []string{"ok-one", "ok-two = 2"}
				bad = append(bad[:pos], append([]string{"bash >> 4.0"}, bad[pos:]...)...)
				switch list {
				case "provides":
					i.Provides = bad
				case "depends":
					i.Depends = bad
				case "recommends":
					i.Recommends = bad
				case "suggests":
					i.Suggests = bad
				case "replaces":
					i.Replaces = bad
				case "conflicts":
					i.Conflicts = bad
				}
			}})
		}
	}
	base := &PkgSpec{Raw: []wire.Content{{Src: filepath.Join(tree.Root, "bin/tool"), Dst: "/usr/bin/tool"}}, Umask: 0o022, MTime: 1700000000}
	for _, f := range Formats {
		if _, err := BuildPkg(f, base.Info()); err != nil {
			c.Rep.Note("invalid-settings: the valid base configuration fails for %s: %v", f, err)
			return
		}
	}
	for _, cs := range cases {
		for _, f := range cs.formats {
			info := base.Info()
			cs.mut(info)
			var out bytes.Buffer
			err, pv := safePackage(f, info, &out)
			fam.Eval(f+"|"+cs.label, true)
			fam.Count(cs.class)
			in := map[string]any{"format": f, "setting": cs.label, "class": cs.class, "bytes_written": out.Len()}
			switch {
			case pv != nil:
				c.Rep.Find(report.Finding{Property: "C06", Family: "invalid-settings", Shape: f + ":panic-on-invalid:" + cs.class,
					What: fmt.Sprintf("%s packager panics (%v) on %s", f, pv, cs.label), Input: in})
			case err == nil:
				c.Rep.Find(report.Finding{Property: "C06", Family: "invalid-settings", Shape: f + ":nil-error-on-invalid:" + cs.class,
					What: fmt.Sprintf("%s Package returns nil (and wrote %d bytes) for the invalid setting %s", f, out.Len(), cs.label), Input: in})
			default:
				if len(fam.Samples) < 3 && (cs.class == "sign-callback" || cs.class == "compression-syntax" || cs.class == "empty-version") {
					fam.Sample(map[string]any{"input": in, "error": err.Error()})
				}
				if cs.class == "sign-callback" {
					if errors.Is(err, signErr) || strings.Contains(err.Error(), signErr.Error()) {
						fam.Count("sign-callback:error-carries-cause")
					} else {
						fam.Count("sign-callback:error-hides-cause")
					}
				}
			}
		}
	}
}

// ---- command line ----

type cliEntry struct{ src, dst, typ string }

// cliYAML writes an nfpm.yaml by hand.
func cliYAML(version, release, platform string, contents []cliEntry, scripts map[string]string, extra string) string {
	var b strings.Builder
	fmt.Fprintf(&b, "name: verifpkg\narch: amd64\nplatform: %s\nversion: %q\n", platform, version)
	if release != "" {
		fmt.Fprintf(&b, "release: %q\n", release)
	}
	b.WriteString("maintainer: \"Verif <verif@example.com>\"\ndescription: verification package\n")
	if len(contents) > 0 {
		b.WriteString("contents:\n")
		for _, e := range contents {
			fmt.Fprintf(&b, "  - src: %q\n    dst: %q\n", e.src, e.dst)
			if e.typ != "" {
				fmt.Fprintf(&b, "    type: %q\n", e.typ)
			}
		}
	}
	if len(scripts) > 0 {
		b.WriteString("scripts:\n")
		var ks []string
		for k := range scripts {
			ks = append(ks, k)
		}
		sort.Strings(ks)
		for _, k := range ks {
			fmt.Fprintf(&b, "  %s: %q\n", k, scripts[k])
		}
	}
	b.WriteString(extra)
	return b.String()
}

// runNfpm runs `nfpm package args...` in dir; exit status and stdout+stderr.
func runNfpm(bin, dir string, args ...string) (int, string) {
	cmd := exec.Command(bin, append([]string{"package"}, args...)...)
	cmd.Dir = dir
	out, err := cmd.CombinedOutput()
	if err == nil {
		return 0, string(out)
	}
	var ee *exec.ExitError
	if errors.As(err, &ee) {
		return ee.ExitCode(), string(out)
	}
	return -1, string(out) + err.Error()
}

// cliCause drops the progress lines of the command; what remains is the diagnostic.
func cliCause(out string) string {
	var keep []string
	for _, l := range strings.Split(out, "\n") {
		t := strings.TrimSpace(l)
		switch {
		case t == "":
		case strings.HasPrefix(t, "using ") && strings.HasSuffix(t, "packager..."):
		case strings.HasPrefix(t, "guessing packager"):
		case strings.HasPrefix(t, "created package:"):
		default:
			keep = append(keep, t)
		}
	}
	return strings.Join(keep, "\n")
}

func cliListing(dir string) []string {
	var res []string
	_ = filepath.WalkDir(dir, func(p string, d fs.DirEntry, err error) error {
		if err != nil || p == dir {
			return nil
		}
		rel, _ := filepath.Rel(dir, p)
		if d.IsDir() {
			rel += "/"
		}
		res = append(res, rel)
		return nil
	})
	sort.Strings(res)
	return res
}

var cliExt = map[string]string{"deb": ".deb", "rpm": ".rpm", "apk": ".apk", "ipk": ".ipk", "archlinux": ".pkg.tar.zst"}

var cliMagic = map[string][]byte{"deb": []byte("!<arch>\n"), "rpm": {0xed, 0xab, 0xee, 0xdb}, "apk": {0x1f, 0x8b}, "ipk": {0x1f, 0x8b}, "archlinux": {0x28, 0xb5, 0x2f, 0xfd}}

func runCli(c *Ctx, tree *SrcTree) error {
	bin, err := BuildNfpmBinary(c.Repo, c.Tmp)
	if err != nil {
		return err
	}
	_, fullErr := os.Stat("/dev/full")
	fam := c.Rep.Family("cli", "the `nfpm package` binary built from the tree, run in a fresh directory with a hand-written nfpm.yaml, exhaustively for 5 packagers x {content source that does not exist, the same with disable_globbing (the failure then happens after the target was created), script that does not exist, -t target that is a symlink to /dev/full (every write fails with ENOSPC), invalid setting; every case except /dev/full also with the target given as an existing directory and omitted (nothing but nfpm.yaml and that directory may exist afterwards) (deb/rpm: compression bogus; apk/archlinux: platform darwin; ipk: content type bogus)}: exit status must be non-zero, the output besides the progress lines must be non-empty (and name the missing file), and nothing may exist at the target path afterwards (Lstat fails). Positive control per packager: the valid configuration exits 0 and creates the target. non-trivial = always")
	fam.Exhaustive = true
	scratch := filepath.Join(c.Tmp, "c06cli")
	if err := os.MkdirAll(scratch, 0o755); err != nil {
		return err
	}
	tool := filepath.Join(tree.Root, "bin/tool")
	valid := []cliEntry{{tool, "/usr/bin/tool", ""}, {filepath.Join(tree.Root, "etc/app.conf"), "/etc/app/app.conf", "config"}}
	okScript := filepath.Join(scratch, "postinstall.sh")
	if err := os.WriteFile(okScript, []byte("#!/bin/sh\necho post\n"), 0o755); err != nil {
		return err
	}
	n := 0
	fresh := func() (string, error) {
		n++
		d := filepath.Join(scratch, fmt.Sprintf("run-%03d", n))
		return d, os.MkdirAll(d, 0o755)
	}
	for _, f := range Formats {
		type cliCase struct {
			name, yaml, mention string
			devFull             bool
		}
		missingSrc := filepath.Join(tree.Root, "c06-no-such-source-"+f+".bin")
		missingScript := filepath.Join(scratch, "c06-no-such-script-"+f+".sh")
		var invalid, invalidDesc string
		switch f {
		case "deb", "rpm":
			invalid = cliYAML("1.2.3", "", "linux", valid, nil, f+":\n  compression: bogus\n")
			invalidDesc = f + ".compression: bogus"
		case "ipk":
			invalid = cliYAML("1.2.3", "", "linux", append(append([]cliEntry{}, valid...), cliEntry{tool, "/usr/bin/bogus", "bogus"}), nil, "")
			invalidDesc = "contents[].type: bogus"
		default:
			invalid = cliYAML("1.2.3", "", "darwin", valid, nil, "")
			invalidDesc = "platform: darwin"
		}
		cases := []cliCase{
			{name: "missing-source", yaml: cliYAML("1.2.3", "", "linux", append(append([]cliEntry{}, valid...), cliEntry{missingSrc, "/usr/bin/missing", ""}), map[string]string{"postinstall": okScript}, ""), mention: filepath.Base(missingSrc)},
			{name: "missing-source-noglob", yaml: cliYAML("1.2.3", "", "linux", append(append([]cliEntry{}, valid...), cliEntry{missingSrc, "/usr/bin/missing", ""}), map[string]string{"postinstall": okScript}, "disable_globbing: true\n"), mention: filepath.Base(missingSrc)},
			{name: "missing-script", yaml: cliYAML("1.2.3", "", "linux", valid, map[string]string{"postinstall": okScript, "preinstall": missingScript}, ""), mention: filepath.Base(missingScript)},
			{name: "dev-full", yaml: cliYAML("1.2.3", "", "linux", valid, map[string]string{"postinstall": okScript}, ""), devFull: true},
			{name: "invalid-setting", yaml: invalid},
			// a setting the configuration cannot have (a misspelled key): the script or key the user meant is otherwise
			// silently left out of a package that is reported as built
			{name: "misspelled-key", yaml: cliYAML("1.2.3", "", "linux", valid, map[string]string{"postinstall": okScript}, "") + "scripts_typo:\n  postinstal: " + okScript + "\n", mention: "scripts_typo"},
			{name: "misspelled-nested-key", yaml: cliYAML("1.2.3", "", "linux", valid, map[string]string{"postinstall": okScript}, "") + "deb:\n  signature:\n    keyfile: /no/such/key.asc\n", mention: "keyfile"},
		}
		for _, cs := range cases {
			if cs.devFull && fullErr != nil {
				fam.Count("skipped:no-/dev/full")
				continue
			}
			dir, err := fresh()
			if err != nil {
				return err
			}
			if err := os.WriteFile(filepath.Join(dir, "nfpm.yaml"), []byte(cs.yaml), 0o644); err != nil {
				return err
			}
			target := filepath.Join(dir, "out"+cliExt[f])
			if cs.devFull {
				if err := os.Symlink("/dev/full", target); err != nil {
					return err
				}
			}
			code, out := runNfpm(bin, dir, "-p", f, "-t", target)
			fam.Eval(f+"|"+cs.name, true)
			fam.Count(cs.name)
			in := map[string]any{"packager": f, "case": cs.name, "config": cs.yaml, "args": []string{"package", "-p", f, "-t", target}, "exit": code, "output": out}
			if cs.devFull {
				in["target"] = "symlink to /dev/full"
			}
			if cs.name == "invalid-setting" {
				in["invalid"] = invalidDesc
			}
			if code == 0 {
				c.Rep.Find(report.Finding{Property: "C06", Family: "cli", Shape: "cli:exit-zero-on-failure:" + cs.name,
					What: fmt.Sprintf("%s: `nfpm package` exits 0 although packaging cannot be completed (%s)", f, cs.name), Input: in})
			}
			cause := cliCause(out)
			if cause == "" || (cs.mention != "" && !strings.Contains(cause, cs.mention)) {
				c.Rep.Find(report.Finding{Property: "C06", Family: "cli", Shape: "cli:no-cause-printed:" + cs.name,
					What: fmt.Sprintf("%s: `nfpm package` does not print the cause of the failure (%s); diagnostic output: %q", f, cs.name, cause), Input: in})
			}
			if _, lerr := os.Lstat(target); lerr == nil {
				in["listing_after"] = cliListing(dir)
				c.Rep.Find(report.Finding{Property: "C06", Family: "cli", Shape: "cli:target-left-behind:" + cs.name,
					What: fmt.Sprintf("%s: a file is left at the target path after the failed `nfpm package` (%s, exit %d)", f, cs.name, code), Input: in})
			}
			if len(fam.Samples) < 3 && code != 0 && f == Formats[len(fam.Samples)%len(Formats)] {
				fam.Sample(map[string]any{"packager": f, "case": cs.name, "exit": code, "output": out})
			}
		}
		// the same failures with the other target spellings: an existing directory (the package would be
		// created inside it under its conventional name) and no target at all (conventional name in the
		// working directory) – nothing may be left behind there either
		for _, cs := range cases {
			if cs.devFull {
				continue
			}
			for _, style := range []string{"dir", "omitted"} {
				dir, err := fresh()
				if err != nil {
					return err
				}
				if err := os.WriteFile(filepath.Join(dir, "nfpm.yaml"), []byte(cs.yaml), 0o644); err != nil {
					return err
				}
				args := []string{"-p", f}
				want := []string{"nfpm.yaml"}
				if style == "dir" {
					if err := os.Mkdir(filepath.Join(dir, "outdir"), 0o755); err != nil {
						return err
					}
					args = append(args, "-t", "outdir")
					want = append(want, "outdir/")
				}
				code, out := runNfpm(bin, dir, args...)
				fam.Eval(f+"|"+cs.name+"|target-"+style, true)
				fam.Count(cs.name + "/target-" + style)
				listing := cliListing(dir)
				in := map[string]any{"packager": f, "case": cs.name, "target": style, "config": cs.yaml,
					"args": append([]string{"package"}, args...), "exit": code, "output": out, "listing_after": listing}
				if code == 0 {
					c.Rep.Find(report.Finding{Property: "C06", Family: "cli", Shape: "cli:exit-zero-on-failure:" + cs.name,
						What: fmt.Sprintf("%s: `nfpm package` (target %s) exits 0 although packaging cannot be completed (%s)", f, style, cs.name), Input: in})
				}
				sort.Strings(listing)
				sort.Strings(want)
				if strings.Join(listing, "\x00") != strings.Join(want, "\x00") {
					c.Rep.Find(report.Finding{Property: "C06", Family: "cli", Shape: "cli:target-left-behind:" + cs.name,
						What: fmt.Sprintf("%s: after the failed `nfpm package` (target %s, %s, exit %d) the directory holds %v, expected %v", f, style, cs.name, code, listing, want), Input: in})
				}
			}
		}
		// positive control
		dir, err := fresh()
		if err != nil {
			return err
		}
		y := cliYAML("1.2.3", "", "linux", valid, map[string]string{"postinstall": okScript}, "")
		if err := os.WriteFile(filepath.Join(dir, "nfpm.yaml"), []byte(y), 0o644); err != nil {
			return err
		}
		target := filepath.Join(dir, "out"+cliExt[f])
		code, out := runNfpm(bin, dir, "-p", f, "-t", target)
		fam.Eval(f+"|valid", true)
		fam.Count("positive-control")
		st, serr := os.Lstat(target)
		if code != 0 || serr != nil || st.Size() == 0 {
			c.Rep.Find(report.Finding{Property: "C06", Family: "cli", Shape: "cli:valid-config-fails",
				What:  fmt.Sprintf("%s: positive control: the valid configuration does not exit 0 with a non-empty target (exit %d)", f, code),
				Input: map[string]any{"packager": f, "config": y, "exit": code, "output": out}})
		}
	}
	return nil
}

// CliTargetCases checks how `nfpm package` resolves the target path on a valid
// configuration (called from the C15 harness; findings carry Property C15).
func CliTargetCases(c *Ctx, fam *report.Family, bin string) {
	root, err := os.MkdirTemp(c.Tmp, "clitarget-")
	if err != nil {
		c.Rep.Note("cli-target: %v", err)
		return
	}
	tool := filepath.Join(root, "tool.sh")
	if err := os.WriteFile(tool, []byte("#!/bin/sh\necho tool\n"), 0o755); err != nil {
		c.Rep.Note("cli-target: %v", err)
		return
	}
	type ver struct{ version, release string }
	vers := []ver{{"1.2.3", ""}, {"v2.0.1-beta.1+git5", "3"}}
	conventional := func(f string, v ver) string {
		info := &nfpm.Info{Name: "verifpkg", Arch: "amd64", Platform: "linux", Version: v.version, Release: v.release,
			Maintainer: "Verif <verif@example.com>", Description: "verification package"}
		info.Contents = files.Contents{{Source: tool, Destination: "/usr/bin/tool"}}
		p, err := nfpm.Get(f)
		if err != nil {
			return ""
		}
		return p.ConventionalFileName(nfpm.WithDefaults(info))
	}
	n := 0
	fresh := func(v ver) (string, string) {
		n++
		d := filepath.Join(root, fmt.Sprintf("run-%03d", n))
		_ = os.MkdirAll(d, 0o755)
		y := cliYAML(v.version, v.release, "linux", []cliEntry{{tool, "/usr/bin/tool", ""}}, nil, "")
		_ = os.WriteFile(filepath.Join(d, "nfpm.yaml"), []byte(y), 0o644)
		return d, y
	}
	find := func(cs, what string, in map[string]any) {
		c.Rep.Find(report.Finding{Property: "C15", Family: fam.Name, Shape: "cli-target:" + cs, What: what, Input: in})
	}
	// isPkg: the file exists, starts with the magic of the format and the independent reader accepts it.
	isPkg := func(path, f string) string {
		b, err := os.ReadFile(path)
		if err != nil {
			return "no file at " + path + ": " + err.Error()
		}
		if !bytes.HasPrefix(b, cliMagic[f]) {
			h := b
			if len(h) > 8 {
				h = h[:8]
			}
			return fmt.Sprintf("%s does not start with the %s magic % x (first bytes % x)", path, f, cliMagic[f], h)
		}
		if _, err := DecodePkg(f, b); err != nil {
			return fmt.Sprintf("%s is not a readable %s package: %v", path, f, err)
		}
		return ""
	}
	sameList := func(a, b []string) bool {
		sort.Strings(a)
		sort.Strings(b)
		return strings.Join(a, "\x00") == strings.Join(b, "\x00")
	}
	type plan struct {
		args  []string // arguments after `package`
		want  string   // where the package must appear ("" = the command must fail)
		extra []string // further entries of the working directory that are expected
		moved bool     // the configuration was moved out of the working directory (extra lists where it is)
	}
	// expect runs the command in a fresh directory. want != "": exit 0, a package of
	// format f exactly there and nothing else new. want == "": non-zero exit, the
	// message, and nothing new.
	expect := func(cs string, v ver, f string, mk func(dir string) plan) {
		dir, y := fresh(v)
		p := mk(dir)
		code, out := runNfpm(bin, dir, p.args...)
		cmdline := "nfpm package " + strings.Join(p.args, " ")
		fam.Eval(cs+"|"+f+"|"+v.version+"|"+strings.Join(p.args, " "), true)
		fam.Count(cs)
		listing := cliListing(dir)
		in := map[string]any{"case": cs, "packager": f, "config": y, "args": append([]string{"package"}, p.args...), "exit": code, "output": out, "listing_after": listing}
		if p.want == "" {
			switch {
			case code == 0:
				find(cs, fmt.Sprintf("`%s` (no packager, target is a directory, empty or without extension) exits 0", cmdline), in)
			case strings.TrimSpace(out) == "":
				find(cs, fmt.Sprintf("`%s` fails without saying anything", cmdline), in)
			case !sameList(listing, append([]string{"nfpm.yaml"}, p.extra...)):
				find(cs, fmt.Sprintf("`%s` fails but leaves files behind: %v", cmdline, listing), in)
			}
			return
		}
		in["expected_path"] = p.want
		if code != 0 {
			find(cs, fmt.Sprintf("%s: `%s` on a valid configuration exits %d", f, cmdline, code), in)
			return
		}
		if msg := isPkg(p.want, f); msg != "" {
			find(cs, fmt.Sprintf("%s: `%s`: %s", f, cmdline, msg), in)
			return
		}
		relWant, _ := filepath.Rel(dir, p.want)
		wantList := append([]string{"nfpm.yaml", relWant}, p.extra...)
		if p.moved {
			wantList = append([]string{relWant}, p.extra...)
		}
		if !sameList(listing, wantList) {
			find(cs, fmt.Sprintf("%s: `%s` creates other entries than the expected target: %v, expected %v", f, cmdline, listing, wantList), in)
		}
		if len(fam.Samples) < 4 && f == Formats[(len(fam.Samples)*2)%len(Formats)] {
			fam.Sample(map[string]any{"case": cs, "command": cmdline, "created": relWant})
		}
	}
	for _, v := range vers {
		for _, f := range Formats {
			conv := conventional(f, v)
			if conv == "" {
				c.Rep.Note("cli-target: no conventional name for %s", f)
				continue
			}
			// target omitted: the conventional name in the working directory
			expect("omitted", v, f, func(d string) plan {
				return plan{args: []string{"-p", f}, want: filepath.Join(d, conv)}
			})
			// the configuration lives in another directory (-f conf/nfpm.yaml): targets are still relative to the
			// working directory of the command
			for _, tc := range []struct {
				name string
				args []string
				rel  string
				dirs []string
			}{{"omitted", nil, conv, nil}, {"file", []string{"-t", "out" + cliExt[f]}, "out" + cliExt[f], nil}, {"existing-dir", []string{"-t", "dist"}, filepath.Join("dist", conv), []string{"dist/"}}} {
				tc := tc
				expect("config-elsewhere:"+tc.name, v, f, func(d string) plan {
					_ = os.Mkdir(filepath.Join(d, "conf"), 0o755)
					_ = os.Rename(filepath.Join(d, "nfpm.yaml"), filepath.Join(d, "conf", "nfpm.yaml"))
					for _, sub := range tc.dirs {
						_ = os.Mkdir(filepath.Join(d, sub), 0o755)
					}
					return plan{args: append([]string{"-p", f, "-f", filepath.Join("conf", "nfpm.yaml")}, tc.args...), want: filepath.Join(d, tc.rel),
						extra: append([]string{"conf/", "conf/nfpm.yaml"}, tc.dirs...), moved: true}
				})
			}
			// -t existingDir: relative, and absolute with a space and a trailing slash
			expect("existing-dir", v, f, func(d string) plan {
				_ = os.Mkdir(filepath.Join(d, "outdir"), 0o755)
				return plan{args: []string{"-p", f, "-t", "outdir"}, want: filepath.Join(d, "outdir", conv), extra: []string{"outdir/"}}
			})
			// a directory whose name looks like it has an extension is still a directory
			expect("existing-dir", v, f, func(d string) plan {
				_ = os.MkdirAll(filepath.Join(d, "dist", "release-1.2"), 0o755)
				return plan{args: []string{"-p", f, "-t", "dist/release-1.2"}, want: filepath.Join(d, "dist", "release-1.2", conv), extra: []string{"dist/", "dist/release-1.2/"}}
			})
			expect("existing-dir", v, f, func(d string) plan {
				abs := filepath.Join(d, "abs out")
				_ = os.Mkdir(abs, 0o755)
				return plan{args: []string{"-p", f, "-t", abs + "/"}, want: filepath.Join(abs, conv), extra: []string{"abs out/"}}
			})
			// -t some/file.ext: exactly that path (the extension of the format, and a foreign name)
			for _, name := range []string{"file" + cliExt[f], "file.zip", "plainname"} {
				name := name
				expect("file-path", v, f, func(d string) plan {
					_ = os.Mkdir(filepath.Join(d, "some"), 0o755)
					return plan{args: []string{"-p", f, "-t", "some/" + name}, want: filepath.Join(d, "some", name), extra: []string{"some/"}}
				})
			}
		}
	}
	v := vers[0]
	// packager inferred from the extension when -p is absent
	for _, f := range Formats {
		f := f
		expect("inferred", v, f, func(d string) plan {
			return plan{args: []string{"-t", "out." + f}, want: filepath.Join(d, "out."+f)}
		})
		expect("inferred", v, f, func(d string) plan {
			_ = os.Mkdir(filepath.Join(d, "dir.rpm"), 0o755)
			_ = os.Mkdir(filepath.Join(d, "dir.rpm", "sub.deb"), 0o755)
			return plan{args: []string{"-t", "dir.rpm/sub.deb/out." + f}, want: filepath.Join(d, "dir.rpm", "sub.deb", "out."+f), extra: []string{"dir.rpm/", "dir.rpm/sub.deb/"}}
		})
	}
	// the extension is what follows the last dot of the base name: another format's extension earlier in the name
	// (myapp.debug.rpm contains ".deb") decides nothing
	for _, nf := range [][2]string{{"myapp.debug.rpm", "rpm"}, {"mirror.apk.repo.ipk", "ipk"}, {"x.rpm.deb", "deb"}, {"archive.ipk.apk", "apk"}, {"tools.deb.rpm", "rpm"}, {"a.apk.b.deb", "deb"}} {
		nf := nf
		expect("inferred", v, nf[1], func(d string) plan {
			return plan{args: []string{"-t", nf[0]}, want: filepath.Join(d, nf[0])}
		})
	}
	// observation only: the conventional archlinux extension does not name a packager
	{
		dir, _ := fresh(v)
		code, out := runNfpm(bin, dir, "-t", "out.pkg.tar.zst")
		fam.Count(fmt.Sprintf("observed:-t out.pkg.tar.zst without -p:exit=%d", code))
		if len(fam.Samples) < 5 {
			fam.Sample(map[string]any{"observation": "nfpm package -t out.pkg.tar.zst (no -p)", "exit": code, "output": out})
		}
	}
	// -p wins over a different extension
	for _, pw := range [][2]string{{"deb", "out.rpm"}, {"rpm", "out.deb"}, {"apk", "out.deb"}, {"ipk", "out.rpm"}, {"archlinux", "out.apk"}} {
		pw := pw
		expect("p-wins", v, pw[0], func(d string) plan {
			return plan{args: []string{"-p", pw[0], "-t", pw[1]}, want: filepath.Join(d, pw[1])}
		})
	}
	CliExistingTargetCases(c, fam, bin, "C15", root)
	// no packager and nothing to infer it from
	expect("no-packager", v, "", func(d string) plan { return plan{args: nil} })
	expect("no-packager", v, "", func(d string) plan { return plan{args: []string{"-t", ""}} })
	expect("no-packager", v, "", func(d string) plan {
		_ = os.Mkdir(filepath.Join(d, "outdir"), 0o755)
		return plan{args: []string{"-t", "outdir"}, extra: []string{"outdir/"}}
	})
	expect("no-packager", v, "", func(d string) plan {
		_ = os.Mkdir(filepath.Join(d, "outdir.deb"), 0o755)
		return plan{args: []string{"-t", "outdir.deb"}, extra: []string{"outdir.deb/"}}
	})
	expect("no-packager", v, "", func(d string) plan { return plan{args: []string{"-t", "noextension"}} })
}

// CliExistingTargetCases: a file that already sits at the resolved target (a previous, larger build) is replaced:
// afterwards the target holds exactly the package a build into a fresh directory produces (mtime fixed, so builds
// are reproducible) – in particular a well-formed package with nothing after it.
func CliExistingTargetCases(c *Ctx, fam *report.Family, bin, prop, root string) {
	tool := filepath.Join(root, "tool-existing.sh")
	if err := os.WriteFile(tool, []byte("#!/bin/sh\necho tool\n"), 0o755); err != nil {
		c.Rep.Note("cli-existing-target: %v", err)
		return
	}
	n := 0
	for _, f := range Formats {
		info := &nfpm.Info{Name: "verifpkg", Arch: "amd64", Platform: "linux", Version: "1.2.3", Maintainer: "Verif <verif@example.com>", Description: "verification package"}
		p, err := nfpm.Get(f)
		if err != nil {
			continue
		}
		conv := p.ConventionalFileName(nfpm.WithDefaults(info))
		for _, how := range []string{"file-target", "conventional-name-in-directory"} {
			y := cliYAML("1.2.3", "", "linux", []cliEntry{{tool, "/usr/bin/tool", ""}}, nil, "mtime: 2023-11-14T22:13:20Z\n")
			dirs := [2]string{}
			for k := range dirs {
				n++
				dirs[k] = filepath.Join(root, fmt.Sprintf("existing-%03d", n))
				_ = os.MkdirAll(filepath.Join(dirs[k], "out"), 0o755)
				_ = os.WriteFile(filepath.Join(dirs[k], "nfpm.yaml"), []byte(y), 0o644)
			}
			rel := filepath.Join("out", "pkg"+cliExt[f])
			args := []string{"-p", f, "-t", rel}
			if how == "conventional-name-in-directory" {
				rel = filepath.Join("out", conv)
				args = []string{"-p", f, "-t", "out"}
			}
			stale := bytes.Repeat([]byte("stale bytes of a previous, larger build\n"), 8192)
			_ = os.WriteFile(filepath.Join(dirs[0], rel), stale, 0o644)
			code0, out0 := runNfpm(bin, dirs[0], args...)
			code1, out1 := runNfpm(bin, dirs[1], args...)
			cs := "existing-file-at-target"
			fam.Eval(cs+"|"+f+"|"+how, true)
			fam.Count(cs)
			in := map[string]any{"case": cs, "packager": f, "how": how, "config": y, "args": append([]string{"package"}, args...), "stale_bytes": len(stale)}
			if code0 != 0 || code1 != 0 {
				c.Rep.Find(report.Finding{Property: prop, Family: fam.Name, Shape: "cli-target:" + cs,
					What: fmt.Sprintf("%s: `nfpm package %s` exits %d onto an existing file and %d into a fresh directory: %q %q", f, strings.Join(args, " "), code0, code1, out0, out1), Input: in})
				continue
			}
			over, _ := os.ReadFile(filepath.Join(dirs[0], rel))
			freshB, _ := os.ReadFile(filepath.Join(dirs[1], rel))
			if !bytes.Equal(over, freshB) {
				in["size_over_existing"], in["size_fresh"] = len(over), len(freshB)
				c.Rep.Find(report.Finding{Property: prop, Family: fam.Name, Shape: "cli-target:" + cs,
					What: fmt.Sprintf("%s: `nfpm package %s` onto an existing %d-byte file leaves %d bytes at the target; the same build into a fresh directory writes the %d-byte package (common prefix %d): the target is the package followed by %d stale bytes",
						f, strings.Join(args, " "), len(stale), len(over), len(freshB), commonPrefixLen(over, freshB), len(over)-commonPrefixLen(over, freshB)), Input: in})
			}
		}
	}
}

func runC06(c *Ctx) error {
	tree, err := MkTree(filepath.Join(c.Tmp, "src"), 0)
	if err != nil {
		return err
	}
	if err := runWriteFaults(c, tree); err != nil {
		return err
	}
	if err := runSourceFaults(c); err != nil {
		return err
	}
	runInvalidSettings(c, tree)
	return runCli(c, tree)
}

func commonPrefixLen(a, b []byte) int {
	n := 0
	for n < len(a) && n < len(b) && a[n] == b[n] {
		n++
	}
	return n
}
