package props

import (
	"bytes"
	"fmt"
	"os"
	"path/filepath"
	"strings"
	"time"

	"github.com/ProtonMail/go-crypto/openpgp"
	"github.com/ProtonMail/go-crypto/openpgp/armor"
	"github.com/ProtonMail/go-crypto/openpgp/packet"

	"github.com/goreleaser/nfpm/v2"
	"verif/harness/internal/report"
)

// c10KeyIDThroughConfiguration: a key_id written in the configuration file selects the key that signs – also when the
// settings reach the packager through nfpm.Parse and Config.Get (the command's route), where the signature settings of
// the three formats are copied. The key file holds a primary key and a signing subkey; without a key id the library
// picks the subkey, with the primary's id the primary must sign.
func c10KeyIDThroughConfiguration(c *Ctx) {
	fam := c.Rep.Family("key-id-through-configuration", "exhaustive: {deb debsign, deb dpkg-sig, rpm} x {key_id of the primary key, key_id of the signing subkey, no key_id} on a key file with both, document parsed with nfpm.Parse, settings from Config.Get: the issuer key id of every signature in the package must be the configured one (without key_id: identical to what a directly filled Info gives); non-trivial = always")
	fam.Exhaustive = true
	tree, err := MkTree(filepath.Join(c.Tmp, "src-keyid"), 0)
	if err != nil {
		c.Rep.Note("key-id-through-configuration: %v", err)
		return
	}
	keyDir := filepath.Join(c.Repo, "internal", "sign", "testdata")
	if c.Repo == "" {
		keyDir = "/repo/internal/sign/testdata"
	}
	for _, method := range []string{"debsign", "dpkg-sig"} {
		for _, id := range []string{"bc8acdd415bd80b3", "9890904dfb2ec88a", ""} {
			k := c12SignedCfg{Label: "primary+subkey", KeyFile: "privkey.asc", Pass: "hunter2", KeyID: id}
			y := c12SignedYAML(tree, k, keyDir, method)
			for _, f := range []string{"deb", "rpm"} {
				if f == "rpm" && method == "dpkg-sig" {
					continue
				}
				cfg, err := c12SignedParse(y, k.Pass)
				if err != nil {
					c.Rep.Note("key-id-through-configuration: %v", err)
					return
				}
				view := c12SignedView(f, isoPackage(cfg, f))
				fam.Eval(fmt.Sprintf("%s|%s|%s", f, method, id), true)
				fam.Count(f)
				in := map[string]any{"format": f, "document": y, "key_id": id, "passphrase": "hunter2 (set on the parsed configuration)"}
				if strings.HasPrefix(view, "error") || strings.HasPrefix(view, "undecodable") || view == "no signature member" {
					if id != "" {
						c.Rep.Find(report.Finding{Property: "C10", Family: "key-id-through-configuration", Shape: f + ":configured-key-id-not-used:" + method,
							What: fmt.Sprintf("key_id %s is configured and the key file holds that key; the %s build: %s", id, f, view), Input: in})
					}
					continue
				}
				if id == "" {
					continue
				}
				for _, part := range strings.Split(view, ",") {
					if i := strings.Index(part, "issuer:"); i >= 0 && part[i+len("issuer:"):] != id {
						c.Rep.Find(report.Finding{Property: "C10", Family: "key-id-through-configuration", Shape: f + ":signed-by-another-key-than-configured",
							What: fmt.Sprintf("key_id %s is configured; the %s package carries %s – another key of the file signed, and a verifier that trusts only the configured key rejects the package", id, f, part), Input: in})
						break
					}
				}
			}
		}
	}
}

// c10SigningThroughEnvMapping: key_file, key_id and the passphrases are settings the parser resolves through the
// environment mapping it is given (ParseWithEnvMapping) – a caller's mapping, not the process environment. A package
// whose configuration names its key through that mapping must come out signed, with that key.
func c10SigningThroughEnvMapping(c *Ctx) {
	fam := c.Rep.Family("signing-settings-through-env-mapping", "exhaustive: {deb, rpm} x {key_file: ${VAR}, key_id: ${VAR}, passphrase from NFPM_PASSPHRASE / NFPM_<FORMAT>_PASSPHRASE} with the values supplied by the mapping handed to nfpm.ParseWithEnvMapping and absent from the process environment: the package must carry a signature by the configured key; non-trivial = always")
	fam.Exhaustive = true
	tree, err := MkTree(filepath.Join(c.Tmp, "src-envmap"), 0)
	if err != nil {
		c.Rep.Note("signing-settings-through-env-mapping: %v", err)
		return
	}
	keyDir := filepath.Join(c.Repo, "internal", "sign", "testdata")
	if c.Repo == "" {
		keyDir = "/repo/internal/sign/testdata"
	}
	type scen struct {
		label   string
		keyFile string // as written in the document
		keyID   string
		env     map[string]string
		issuer  string
	}
	prot := filepath.Join(keyDir, "privkey.asc")
	unprot := filepath.Join(keyDir, "privkey_unprotected.asc")
	scens := []scen{
		{"key_file from the mapping, unprotected key", "${C10_KEY_FILE}", "", map[string]string{"C10_KEY_FILE": unprot}, ""},
		{"key_file literal, passphrase NFPM_PASSPHRASE from the mapping", prot, "bc8acdd415bd80b3", map[string]string{"NFPM_PASSPHRASE": "hunter2"}, "bc8acdd415bd80b3"},
		{"key_file literal, passphrase NFPM_<FORMAT>_PASSPHRASE from the mapping", prot, "bc8acdd415bd80b3", map[string]string{"NFPM_DEB_PASSPHRASE": "hunter2", "NFPM_RPM_PASSPHRASE": "hunter2"}, "bc8acdd415bd80b3"},
		{"key_file and key_id from the mapping", "${C10_KEY_FILE}", "${C10_KEY_ID}", map[string]string{"C10_KEY_FILE": prot, "C10_KEY_ID": "bc8acdd415bd80b3", "NFPM_PASSPHRASE": "hunter2"}, "bc8acdd415bd80b3"},
	}
	for _, sc := range scens {
		var b strings.Builder
		fmt.Fprintf(&b, "name: signed\narch: amd64\nplatform: linux\nversion: 1.2.3\nmaintainer: Verif <verif@example.com>\ndescription: signing settings through the mapping\nmtime: 2023-11-14T22:13:20Z\n")
		fmt.Fprintf(&b, "contents:\n  - src: %s\n    dst: /usr/bin/tool\n", filepath.Join(tree.Root, "bin/tool"))
		for _, f := range []string{"deb", "rpm"} {
			fmt.Fprintf(&b, "%s:\n  signature:\n    key_file: %q\n", f, sc.keyFile)
			if sc.keyID != "" {
				fmt.Fprintf(&b, "    key_id: %q\n", sc.keyID)
			}
		}
		y := b.String()
		for _, f := range []string{"deb", "rpm"} {
			cfg, err := parseWithMap(y, sc.env)
			fam.Eval(sc.label+"|"+f, true)
			in := map[string]any{"format": f, "document": y, "mapping": sc.env}
			if err != nil {
				c.Rep.Find(report.Finding{Property: "C10", Family: "signing-settings-through-env-mapping", Shape: f + ":signing-settings-from-mapping-lost:parse", What: "the document does not parse: " + err.Error(), Input: in})
				continue
			}
			view := c12SignedView(f, isoPackage(cfg, f))
			bad := strings.HasPrefix(view, "error") || strings.HasPrefix(view, "undecodable") || view == "no signature member" || strings.Contains(view, ":absent")
			if !bad && sc.issuer != "" && !strings.Contains(view, "issuer:"+sc.issuer) {
				bad = true
			}
			if bad {
				c.Rep.Find(report.Finding{Property: "C10", Family: "signing-settings-through-env-mapping", Shape: f + ":signing-settings-from-mapping-lost",
					What: fmt.Sprintf("%s: the %s package: %s (expected a signature%s)", sc.label, f, view, map[bool]string{true: " by " + sc.issuer, false: ""}[sc.issuer != ""]), Input: in})
			}
		}
	}
}

func parseWithMap(y string, env map[string]string) (*nfpm.Config, error) {
	cfg, err := nfpm.ParseWithEnvMapping(strings.NewReader(y), func(k string) string { return env[k] })
	if err != nil {
		return nil, err
	}
	return &cfg, nil
}

// c10RotatedSubkeys: a protected key with TWO signing sub keys (the picture after a sub key rotation), generated here;
// key_id may name the primary, the older or the newer sub key – the package is signed, by that key.
func c10RotatedSubkeys(c *Ctx) {
	fam := c.Rep.Family("rotated-signing-subkeys", "exhaustive: a passphrase-protected OpenPGP key generated by the harness with two signing sub keys x key_id in {primary, older sub key, newer sub key} x {deb debsign, rpm}: the package must be built and every signature in it issued by the key the id names; non-trivial = always")
	fam.Exhaustive = true
	tree, err := MkTree(filepath.Join(c.Tmp, "src-rotated"), 0)
	if err != nil {
		c.Rep.Note("rotated-signing-subkeys: %v", err)
		return
	}
	cfgp := &packet.Config{RSABits: 2048, Time: func() time.Time { return time.Unix(1600000000, 0) }}
	e, err := openpgp.NewEntity("Verif Rotated", "", "rotated@example.com", cfgp)
	if err != nil {
		c.Rep.Note("rotated-signing-subkeys: %v", err)
		return
	}
	for i := 0; i < 2; i++ {
		cfgp.Time = func() time.Time { return time.Unix(1600000000+int64(i+1)*86400, 0) }
		if err := e.AddSigningSubkey(cfgp); err != nil {
			c.Rep.Note("rotated-signing-subkeys: %v", err)
			return
		}
	}
	const pass = "rotated-pass"
	if err := e.PrivateKey.Encrypt([]byte(pass)); err != nil {
		c.Rep.Note("rotated-signing-subkeys: %v", err)
		return
	}
	var ids []string
	ids = append(ids, fmt.Sprintf("%016x", e.PrimaryKey.KeyId))
	for i := range e.Subkeys {
		if e.Subkeys[i].PrivateKey != nil {
			if err := e.Subkeys[i].PrivateKey.Encrypt([]byte(pass)); err != nil {
				c.Rep.Note("rotated-signing-subkeys: %v", err)
				return
			}
		}
		if e.Subkeys[i].Sig != nil && e.Subkeys[i].Sig.FlagsValid && e.Subkeys[i].Sig.FlagSign {
			ids = append(ids, fmt.Sprintf("%016x", e.Subkeys[i].PublicKey.KeyId))
		}
	}
	keyDir := filepath.Join(c.Tmp, "rotated-keys")
	_ = os.MkdirAll(keyDir, 0o755)
	var buf bytes.Buffer
	w, err := armor.Encode(&buf, openpgp.PrivateKeyType, nil)
	if err == nil {
		err = e.SerializePrivateWithoutSigning(w, nil)
		_ = w.Close()
	}
	if err != nil {
		c.Rep.Note("rotated-signing-subkeys: %v", err)
		return
	}
	if err := os.WriteFile(filepath.Join(keyDir, "rotated.asc"), buf.Bytes(), 0o600); err != nil {
		return
	}
	for _, id := range ids {
		k := c12SignedCfg{Label: "rotated", KeyFile: "rotated.asc", Pass: pass, KeyID: id}
		y := c12SignedYAML(tree, k, keyDir, "debsign")
		for _, f := range []string{"deb", "rpm"} {
			cfg, err := c12SignedParse(y, pass)
			if err != nil {
				c.Rep.Note("rotated-signing-subkeys: %v", err)
				return
			}
			view := c12SignedView(f, isoPackage(cfg, f))
			fam.Eval(f+"|"+id, true)
			in := map[string]any{"format": f, "key": "generated: primary + two signing sub keys, protected", "key_ids": ids, "key_id": id}
			if strings.HasPrefix(view, "error") || strings.HasPrefix(view, "undecodable") || view == "no signature member" || strings.Contains(view, ":absent") {
				c.Rep.Find(report.Finding{Property: "C10", Family: "rotated-signing-subkeys", Shape: f + ":configured-key-id-cannot-sign",
					What: fmt.Sprintf("key_id %s names a signing key of the file and the passphrase is right; the %s build: %s", id, f, view), Input: in})
				continue
			}
			if !strings.Contains(view, "issuer:"+id) {
				c.Rep.Find(report.Finding{Property: "C10", Family: "rotated-signing-subkeys", Shape: f + ":signed-by-another-key-than-configured",
					What: fmt.Sprintf("key_id %s is configured; the %s package carries %s", id, f, view), Input: in})
			}
		}
	}
}
