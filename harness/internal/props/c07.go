package props

import (
	"bytes"
	"encoding/binary"
	"fmt"
	"io/fs"
	"os"
	"os/exec"
	"path/filepath"
	"runtime"
	"sort"
	"strconv"
	"strings"
	"syscall"
	"time"
	"unsafe"

	"github.com/goreleaser/nfpm/v2"
	"verif/harness/decode"
	"verif/harness/internal/report"
	"verif/harness/internal/wire"
)

func init() { Registry["C07"] = runC07 }

const (
	c07MTime = int64(1700000000)
	// uint32 of time.Time{}.Unix(): what a gzip writer stores when its header
	// ModTime was never set (a constant, not a clock reading)
	c07ZeroTimeU32 = int64(2288912640)
)

// stamp is one timestamp stored somewhere in a package.
type stamp struct {
	Class string // ar-member, tar-member, pax-record, gzip-header, cpio-member, rpm-buildtime, rpm-filemtime, rpm-changelogtime, arch-builddate, mtree-time
	Where string // container and member name
	Val   int64
}

func tarStamps(container string, es []decode.Entry) []stamp {
	var res []stamp
	for _, e := range es {
		res = append(res, stamp{"tar-member", container + ":" + e.Name, e.MTime})
		// access and change times a header carries (GNU header fields, or PAX records merged by the reader)
		if e.ATime != 0 {
			res = append(res, stamp{"tar-member-atime", container + ":" + e.Name + ":atime", e.ATime})
		}
		if e.CTime != 0 {
			res = append(res, stamp{"tar-member-ctime", container + ":" + e.Name + ":ctime", e.CTime})
		}
		for _, k := range []string{"mtime", "atime", "ctime"} {
			v, ok := e.PAX[k]
			if !ok {
				continue
			}
			sec, err := strconv.ParseInt(strings.SplitN(v, ".", 2)[0], 10, 64)
			if err != nil {
				sec = -1
			}
			res = append(res, stamp{"pax-record", container + ":" + e.Name + ":" + k, sec})
		}
	}
	return res
}

// collectStamps lists every timestamp the independent readers can see in a package.
func collectStamps(dec *Decoded) []stamp {
	var res []stamp
	switch dec.Format {
	case "deb":
		for _, m := range dec.Deb.Members {
			res = append(res, stamp{"ar-member", "ar:" + m.Name, m.MTime})
		}
		res = append(res, tarStamps("control.tar.gz", dec.Deb.Control)...)
		res = append(res, tarStamps(dec.Deb.DataName, dec.Deb.Data)...)
		for i, g := range dec.Deb.GzipHeaderMTimes {
			res = append(res, stamp{"gzip-header", fmt.Sprintf("gzip#%d", i), int64(g)})
		}
	case "ipk":
		res = append(res, stamp{"gzip-header", "outer-gzip", int64(dec.Ipk.OuterGzipMTime)})
		for i, g := range dec.Ipk.GzipHeaderMTimes {
			res = append(res, stamp{"gzip-header", fmt.Sprintf("gzip#%d", i), int64(g)})
		}
		res = append(res, tarStamps("outer", dec.Ipk.Outer)...)
		res = append(res, tarStamps("control.tar.gz", dec.Ipk.Control)...)
		res = append(res, tarStamps("data.tar.gz", dec.Ipk.Data)...)
	case "apk":
		for i, seg := range dec.Apk.Segments {
			res = append(res, stamp{"gzip-header", fmt.Sprintf("segment#%d", i), int64(seg.GzipMTime)})
			res = append(res, tarStamps(fmt.Sprintf("segment#%d", i), seg.Entries)...)
		}
	case "archlinux":
		res = append(res, tarStamps("pkg.tar", dec.Arch.Entries)...)
		if len(dec.Arch.MtreeGz) > 0 {
			res = append(res, stamp{"gzip-header", ".MTREE", int64(dec.Arch.MtreeGzipMTime)})
		}
		for _, kv := range dec.Arch.Pkginfo {
			if kv.Key == "builddate" {
				v, err := strconv.ParseInt(kv.Value, 10, 64)
				if err != nil {
					v = -1
				}
				res = append(res, stamp{"arch-builddate", ".PKGINFO:builddate", v})
			}
		}
		for _, l := range dec.Arch.Mtree {
			t, ok := l.Fields["time"]
			if !ok {
				continue
			}
			v, err := strconv.ParseInt(strings.SplitN(t, ".", 2)[0], 10, 64)
			if err != nil {
				v = -1
			}
			res = append(res, stamp{"mtree-time", ".MTREE:" + l.Path, v})
		}
	case "rpm":
		if t, ok := dec.Rpm.Hdr[1006]; ok {
			for _, v := range t.Ints {
				res = append(res, stamp{"rpm-buildtime", "BUILDTIME", int64(v)})
			}
		}
		if t, ok := dec.Rpm.Hdr[1034]; ok {
			for i, v := range t.Ints {
				name := fmt.Sprintf("#%d", i)
				if i < len(dec.Rpm.Files) {
					name = dec.Rpm.Files[i].Name
				}
				res = append(res, stamp{"rpm-filemtime", "FILEMTIMES:" + name, int64(v)})
			}
		}
		if t, ok := dec.Rpm.Hdr[1080]; ok {
			for i, v := range t.Ints {
				res = append(res, stamp{"rpm-changelogtime", fmt.Sprintf("CHANGELOGTIME#%d", i), int64(v)})
			}
		}
		for _, e := range dec.Rpm.Cpio {
			res = append(res, stamp{"cpio-member", "cpio:" + e.Name, int64(e.MTime)})
		}
		if p := dec.Rpm.PayloadRaw; len(p) >= 10 && p[0] == 0x1f && p[1] == 0x8b {
			res = append(res, stamp{"gzip-header", "payload", int64(binary.LittleEndian.Uint32(p[4:8]))})
		}
	}
	return res
}

// onDiskMTimes: mtimes (lstat and stat) of everything under the given roots.
func onDiskMTimes(roots ...string) map[int64]bool {
	res := map[int64]bool{}
	for _, root := range roots {
		_ = filepath.WalkDir(root, func(p string, _ fs.DirEntry, err error) error {
			if err != nil {
				return nil
			}
			if st, err := os.Lstat(p); err == nil {
				res[st.ModTime().Unix()] = true
			}
			if st, err := os.Stat(p); err == nil {
				res[st.ModTime().Unix()] = true
			}
			return nil
		})
	}
	return res
}

// allowedFor maps every admissible timestamp of a spec to the kind of origin it has.
func allowedFor(disk map[int64]bool, mtime int64, raw []wire.Content) map[int64]string {
	res := map[int64]string{}
	for k := range disk {
		res[k] = "source-on-disk-mtime"
	}
	for _, c := range raw {
		if c.Info != nil && c.Info.MTime != wire.ZeroTime {
			res[c.Info.MTime] = "explicit-entry-mtime"
		}
	}
	if _, declared := res[0]; !declared { // an entry may declare the epoch itself as its time
		res[0] = "zero"
	}
	res[c07ZeroTimeU32] = "unset-gzip-constant"
	res[mtime] = "configured-mtime"
	return res
}

func c07FirstDiff(a, b []byte) int {
	n := len(a)
	if len(b) < n {
		n = len(b)
	}
	for i := 0; i < n; i++ {
		if a[i] != b[i] {
			return i
		}
	}
	if len(a) != len(b) {
		return n
	}
	return -1
}

func diffWhat(a, b []byte) string {
	off := c07FirstDiff(a, b)
	ctx := func(x []byte) string {
		lo, hi := off-4, off+12
		if lo < 0 {
			lo = 0
		}
		if hi > len(x) {
			hi = len(x)
		}
		if lo > hi {
			lo = hi
		}
		return fmt.Sprintf("%x", x[lo:hi])
	}
	return fmt.Sprintf("first differing offset %d (lengths %d vs %d; bytes around it: %s vs %s)", off, len(a), len(b), ctx(a), ctx(b))
}

// lutime sets the mtime of p without following a symlink.
func lutime(p string, sec int64) error {
	ts := [2]syscall.Timespec{{Sec: sec}, {Sec: sec}}
	bp, err := syscall.BytePtrFromString(p)
	if err != nil {
		return err
	}
	const atFdCwd, atSymlinkNoFollow = -100, 0x100
	fd := atFdCwd
	_, _, e := syscall.Syscall6(syscall.SYS_UTIMENSAT, uintptr(fd), uintptr(unsafe.Pointer(bp)), uintptr(unsafe.Pointer(&ts[0])), atSymlinkNoFollow, 0, 0)
	runtime.KeepAlive(bp)
	if e != 0 {
		return e
	}
	return nil
}

type c07Built struct {
	spec   *PkgSpec
	format string
	data   []byte
	err    error
	nontr  bool
	key    string
}

func (b *c07Built) input() map[string]any {
	in := b.spec.Input()
	in["format"] = b.format
	return in
}

// checkStamps decodes a package and checks every stored timestamp against the allowed set.
// c07UnsetAllowed: where an unset time is what the format's writer always stores, whatever the configuration says:
// gzip headers (compress/gzip is given no ModTime: 0; pgzip/klauspost write their own constant) and the cpio headers of
// rpmpack (the format's times live in the rpm header).  The .PKGINFO member of the apk control segment used to be on
// this list; it is an archive member header like any other and carries the package mtime since fix in /repo.
func c07UnsetAllowed(format string, s stamp, kind string) bool {
	switch {
	case s.Class == "gzip-header":
		return true
	case format == "rpm" && s.Class == "cpio-member":
		return kind == "zero"
	case format == "rpm" && s.Class == "rpm-changelogtime":
		// the date a changelog entry states is an input; an entry without a date states Go's zero time, which the
		// 32-bit tag holds as 2288912640
		return kind == "unset-gzip-constant"
	}
	return false
}

func checkStamps(c *Ctx, fam *report.Family, famName, format string, data []byte, allowed map[int64]string, in map[string]any) (members int, ok bool) {
	dec, err := DecodePkg(format, data)
	if err != nil {
		fam.Count("undecodable:" + format)
		return 0, false
	}
	now := time.Now().Unix()
	for _, s := range collectStamps(dec) {
		if kind, ok := allowed[s.Val]; ok {
			fam.Count(format + ":" + s.Class + "=" + kind)
			// the two "unset" values are what a library writes when it is given no time at all; they are sourced only
			// where the code never passes one (these places are the same on every build of the unchanged tree)
			if (kind == "zero" || kind == "unset-gzip-constant") && !c07UnsetAllowed(format, s, kind) {
				c.Rep.Find(report.Finding{Property: "C07", Family: famName, Shape: format + ":timestamp-unset:" + s.Class,
					What:  fmt.Sprintf("timestamp at %s (%s) is the unset value %d although the entry has a configured, explicit or on-disk mtime", s.Where, s.Class, s.Val),
					Input: in})
			}
			continue
		}
		fam.Count(format + ":" + s.Class + "=UNSOURCED")
		c.Rep.Find(report.Finding{Property: "C07", Family: famName, Shape: format + ":timestamp-not-sourced:" + s.Class,
			What:  fmt.Sprintf("timestamp %d at %s (%s) is neither the configured mtime, an explicit per-entry mtime, nor the on-disk mtime of any source; it is %d s away from the wall clock at check time", s.Val, s.Where, s.Class, now-s.Val),
			Input: in})
	}
	return len(dec.Members), true
}

func runC07(c *Ctx) error {
	tree, err := MkTree(filepath.Join(c.Tmp, "src"), 0)
	if err != nil {
		return err
	}
	// MkTree leaves symlinks and the root directory with clock mtimes; pin them
	// so that no allowed value is close to the wall clock.
	for i, l := range tree.Links {
		if err := lutime(l, 1600002500+int64(i)); err != nil {
			c.Rep.Note("lutimes %s: %v (symlink keeps its creation time)", l, err)
		}
	}
	_ = os.Chtimes(tree.Root, time.Unix(1600002900, 0), time.Unix(1600002900, 0))

	scriptDir := filepath.Join(c.Tmp, "scripts")
	if err := os.MkdirAll(scriptDir, 0o755); err != nil {
		return err
	}
	scriptSels := []string{"Scripts.PreInstall", "Scripts.PostInstall", "Scripts.PreRemove", "Scripts.PostRemove"}
	scriptPath := map[string]string{}
	for i, sel := range scriptSels {
		p := filepath.Join(scriptDir, fmt.Sprintf("script%d.sh", i))
		if err := os.WriteFile(p, []byte(fmt.Sprintf("#!/bin/sh\necho %s\n", sel)), 0o755); err != nil {
			return err
		}
		mt := time.Unix(1650000000+int64(i)*100, 0)
		if err := os.Chtimes(p, mt, mt); err != nil {
			return err
		}
		scriptPath[sel] = p
	}
	_ = os.Chtimes(scriptDir, time.Unix(1650001000, 0), time.Unix(1650001000, 0))
	disk := onDiskMTimes(tree.Root, scriptDir)
	start := time.Now().Unix()
	for v := range disk {
		if v > start-3600 {
			c.Rep.Note("an on-disk source mtime (%d) is within an hour of the wall clock; a clock leak equal to it would go unnoticed", v)
		}
	}

	r := c.R.Fork("c07")
	withScripts := func(s *PkgSpec) {
		var sels []string
		for _, sel := range scriptSels {
			if r.Bool() {
				sels = append(sels, sel)
			}
		}
		if len(sels) == 0 {
			return
		}
		old := s.Mutate
		s.Mutate = func(info *nfpm.Info) {
			if old != nil {
				old(info)
			}
			for _, sel := range sels {
				setScript(info, sel, scriptPath[sel])
			}
		}
		s.Describe["scripts"] = sels
	}

	// settings kept in Go maps (custom control fields, incl. names that differ only in case), many relation items,
	// alternatives, triggers: whatever order the maps are walked in must not reach the package
	withMaps := func(s *PkgSpec) {
		old := s.Mutate
		s.Mutate = func(info *nfpm.Info) {
			if old != nil {
				old(info)
			}
			info.Deb.Fields = map[string]string{"Bugs": "https://bugs.example.com", "bugs": "lower", "Vcs-Git": "git://x", "vcs-git": "git://y", "X-A": "1", "X-B": "2", "X-C": "3", "x-a": "4"}
			info.IPK.Fields = map[string]string{"Source": "upper", "source": "lower", "SOURCE": "caps", "Custom": "c", "custom": "d", "Extra-One": "1", "Extra-Two": "2", "extra-one": "3"}
			info.Depends = []string{"libc6", "bash (>= 4)", "zlib"}
			info.Provides = []string{"virt-a", "", "virt-b"} // an empty item (reachable through the library API) is dropped by every format
			info.IPK.Alternatives = []nfpm.IPKAlternative{{Priority: 100, Target: "/usr/bin/x", LinkName: "/usr/bin/y"}, {Priority: 5, Target: "t", LinkName: "l"}}
			info.Deb.Triggers.Interest = []string{"trig-a", "trig-b"}
		}
		s.Describe["map_settings"] = "deb.fields / ipk.fields with names differing only in case, relations, alternatives, triggers"
	}

	// a changelog with a dated and an undated entry (rpm stores one CHANGELOGTIME per entry, deb renders the dates)
	changelogPath := filepath.Join(scriptDir, "changelog.yaml")
	const c07ChangelogDate = int64(1614834367) // 2021-03-04T05:06:07Z
	if err := os.WriteFile(changelogPath, []byte("---\n- semver: 1.1.0\n  date: 2021-03-04T05:06:07Z\n  packager: Verif <verif@example.com>\n  changes:\n    - note: \"dated entry\"\n- semver: 1.0.0\n  packager: Verif <verif@example.com>\n  changes:\n    - note: \"an entry without a date\"\n"), 0o644); err != nil {
		return err
	}
	_ = os.Chtimes(changelogPath, time.Unix(1650002000, 0), time.Unix(1650002000, 0))
	_ = os.Chtimes(scriptDir, time.Unix(1650001000, 0), time.Unix(1650001000, 0))
	withChangelog := func(s *PkgSpec) {
		old := s.Mutate
		s.Mutate = func(info *nfpm.Info) {
			if old != nil {
				old(info)
			}
			info.Changelog = changelogPath
		}
		s.Describe["changelog"] = "two entries: one dated 2021-03-04T05:06:07Z, one without a date"
	}

	// ---------------- family 1: rebuild in process ----------------
	fam := c.Rep.Family("rebuild-in-process", "one in three specs carries custom control fields kept in maps, with names differing only in case; random content lists (genPkgSpec: files, configs, globs, dirs, symlinks, trees, ghosts, docs, per-entry file_info incl. explicit mtimes, deb/rpm compressors; the first spec carries one compressible file larger than every compressor block) with mtime forced to 1700000000, rpm build host fixed, optional scripts, x 5 formats; package A is rebuilt immediately, twice through Config.Get on one configuration held in memory, after the wall-clock second changed (one 1.2 s sleep), under GOMAXPROCS 1/2/4/16, and from the tree root with every source path rewritten to a relative one; a tree one of whose directories is dated two seconds ahead of the clock is built before and after that instant (x 5 formats); every rebuild must be byte-identical to A; one evaluation per (spec, format, variant); non-trivial = A built and has more than one payload member")
	n := c.N(25, 400)
	var built []*c07Built
	evalKeyExtra := "" // distinguishes the GOMAXPROCS values inside the gomaxprocs variant
	compare := func(b *c07Built, variant string, data []byte, err error) {
		fam.Eval(b.key+"|"+variant+evalKeyExtra, b.nontr)
		fam.Count(variant)
		switch {
		case (b.err == nil) != (err == nil):
			c.Rep.Find(report.Finding{Property: "C07", Family: "rebuild-in-process", Shape: b.format + ":rebuild-differs:" + variant,
				What: fmt.Sprintf("one build fails and the other succeeds: first %v, rebuild (%s) %v", b.err, variant, err), Input: b.input()})
		case b.err != nil:
			fam.Count("build-error")
		case !bytes.Equal(b.data, data):
			c.Rep.Find(report.Finding{Property: "C07", Family: "rebuild-in-process", Shape: b.format + ":rebuild-differs:" + variant,
				What: "rebuilding the same configuration (" + variant + ") gives different bytes: " + diffWhat(b.data, data), Input: b.input()})
		}
	}
	// timestamps family is fed from the same packages
	famT := c.Rep.Family("timestamps", "every package A of rebuild-in-process plus specs in which every entry carries an explicit per-entry mtime (1500000000..1500100000), mtime 1700000000: the package is decoded by the independent readers and EVERY stored timestamp is collected (ar member headers; tar member headers and PAX time records of deb control+data, ipk outer+control+data, every apk segment, archlinux incl. .PKGINFO/.MTREE/.INSTALL; every gzip header MTIME incl. the rpm payload's; rpm BUILDTIME, FILEMTIMES, CHANGELOGTIME (one spec in three has a changelog with a dated and an undated entry) and cpio member times; archlinux builddate and every .MTREE time=) and must lie in {configured mtime} ∪ {explicit per-entry mtimes} ∪ {on-disk mtimes of the source tree and script files, all pinned years before the run} ∪ {the dates the changelog file states} ∪ {0, 2288912640 (unset markers)}; one evaluation per package; non-trivial = more than one payload member; the distribution counts timestamps per format and location class")
	// a payload larger than any compressor block (pgzip 1 MiB, zstd 128 KiB): compressible text, so that block
	// boundaries matter; it goes through every rebuild variant, GOMAXPROCS 1/2/4/16 included
	bigPath := filepath.Join(c.Tmp, "c07-big.txt")
	{
		var bb bytes.Buffer
		for i := 0; bb.Len() < c.N(1536<<10, 5<<20); i++ {
			fmt.Fprintf(&bb, "line %08d of the reproducibility payload: the quick brown fox jumps over the lazy dog\n", i)
		}
		if err := os.WriteFile(bigPath, bb.Bytes(), 0o644); err != nil {
			return err
		}
		_ = os.Chtimes(bigPath, time.Unix(1600004000, 0), time.Unix(1600004000, 0))
		disk[1600004000] = true
	}
	for i := 0; i < n; i++ {
		s := genPkgSpec(r, tree)
		if i == 0 {
			s = &PkgSpec{Raw: []wire.Content{{Src: bigPath, Dst: "/usr/share/big/payload.txt"}, {Src: filepath.Join(tree.Root, "bin/tool"), Dst: "/usr/bin/tool"}},
				Umask: 0o022, Describe: map[string]any{"payload": "one compressible file larger than every compressor block"}}
		}
		if i == 11 {
			// one glob whose matches share a base name, sent into a directory: both would land on one path. Planning
			// refuses that – and if it ever does not, which of the two gets packaged must not be a matter of chance
			s = &PkgSpec{Raw: []wire.Content{{Src: filepath.Join(tree.Root, "same/*/app.conf"), Dst: "/etc/demo/", Type: "config"}, {Src: filepath.Join(tree.Root, "bin/tool"), Dst: "/usr/bin/tool"}},
				Umask: 0o022, Describe: map[string]any{"payload": "a glob with two matches of one base name into a directory"}}
		}
		s.MTime = c07MTime
		if r.Bool() {
			withScripts(s)
		}
		if i%3 == 1 {
			withMaps(s)
		}
		if i%3 == 2 {
			withChangelog(s)
		}
		if i > 0 && i <= 10 {
			// the first specs all go through zstd (deb and rpm): frames, padding and checksums of the encoder must be a
			// function of the input – ten different payload lengths, odd and even
			old := s.Mutate
			s.Mutate = func(info *nfpm.Info) {
				if old != nil {
					old(info)
				}
				info.Deb.Compression, info.RPM.Compression = "zstd", "zstd"
			}
			s.Describe["deb.compression"], s.Describe["rpm.compression"] = "zstd", "zstd"
		}
		allowed := allowedFor(disk, s.MTime, s.Raw)
		allowed[c07ChangelogDate] = "changelog-entry-date"
		for _, f := range Formats {
			b := &c07Built{spec: s, format: f}
			b.key = fmt.Sprintf("%s|%v", f, s.Input())
			b.data, b.err = BuildPkg(f, s.Info())
			if b.err == nil {
				members, ok := checkStamps(c, famT, "timestamps", f, b.data, allowed, b.input())
				b.nontr = ok && members > 1
				famT.Eval(b.key, b.nontr)
				if ok && len(famT.Samples) < 2 && members > 2 {
					dec, _ := DecodePkg(f, b.data)
					var ex []string
					for _, st := range collectStamps(dec) {
						if len(ex) < 12 {
							ex = append(ex, fmt.Sprintf("%s %s=%d", st.Class, st.Where, st.Val))
						}
					}
					famT.Sample(map[string]any{"input": b.input(), "timestamps": ex})
				}
			}
			data2, err2 := BuildPkg(f, s.Info())
			compare(b, "immediate", data2, err2)
			// a library user's loop: one configuration in memory, the effective settings asked of it for every build
			// (Config.Get, WithDefaults, Package – twice)
			cfg := &nfpm.Config{Info: *s.Info()}
			for round := 0; round < 2; round++ {
				gi, gerr := cfg.Get(f)
				if gerr != nil {
					break
				}
				data3, err3 := BuildPkg(f, nfpm.WithDefaults(gi))
				compare(b, fmt.Sprintf("through-one-configuration-in-memory:%d", round+1), data3, err3)
			}
			built = append(built, b)
			if b.err == nil && len(fam.Samples) < 2 && b.nontr {
				fam.Sample(map[string]any{"input": b.input(), "bytes": len(b.data)})
			}
		}
	}
	// the wall-clock second changes
	time.Sleep(1200 * time.Millisecond)
	for _, b := range built {
		data, err := BuildPkg(b.format, b.spec.Info())
		compare(b, "later-wall-clock", data, err)
	}
	// a source tree one of whose directories is dated a moment ahead of the build host's clock (a skewed file server, a
	// touched directory): the first build runs before that instant, the rebuild after it – the bytes must not depend on
	// which side of a source's date the wall clock is
	{
		skew := filepath.Join(c.Tmp, "c07-skew")
		if err := os.MkdirAll(filepath.Join(skew, "tree", "sub"), 0o755); err != nil {
			return err
		}
		_ = os.WriteFile(filepath.Join(skew, "tree", "sub", "f.txt"), []byte("skew\n"), 0o644)
		past := time.Unix(1600005000, 0)
		for _, p := range []string{filepath.Join(skew, "tree", "sub", "f.txt"), filepath.Join(skew, "tree")} {
			_ = os.Chtimes(p, past, past)
		}
		fut := time.Unix(time.Now().Unix()+2, 0)
		_ = os.Chtimes(filepath.Join(skew, "tree", "sub"), fut, fut)
		sp := &PkgSpec{Raw: []wire.Content{{Src: filepath.Join(skew, "tree"), Dst: "/opt/skew", Type: "tree"}}, Umask: 0o022, MTime: c07MTime,
			Describe: map[string]any{"source": "a tree with one directory dated two seconds ahead of the clock at the first build"}}
		var first []*c07Built
		for _, f := range Formats {
			b := &c07Built{spec: sp, format: f, nontr: true}
			b.key = fmt.Sprintf("%s|%v", f, sp.Input())
			b.data, b.err = BuildPkg(f, sp.Info())
			first = append(first, b)
		}
		if time.Now().Before(fut) {
			time.Sleep(time.Until(fut) + 1100*time.Millisecond)
			for _, b := range first {
				data, err := BuildPkg(b.format, b.spec.Info())
				compare(b, "after-a-source-date-has-passed", data, err)
			}
		} else {
			c.Rep.Note("rebuild-in-process: the builds before the skewed directory date took longer than two seconds; variant skipped")
		}
	}
	// scheduling
	oldProcs := runtime.GOMAXPROCS(0)
	step := c.N(1, 4)
	for _, procs := range []int{1, 2, 4, 16} {
		runtime.GOMAXPROCS(procs)
		evalKeyExtra = fmt.Sprintf("=%d", procs)
		for i, b := range built {
			if (i/len(Formats))%step != 0 {
				continue
			}
			data, err := BuildPkg(b.format, b.spec.Info())
			compare(b, "gomaxprocs", data, err)
			fam.Count(fmt.Sprintf("gomaxprocs=%d", procs))
		}
	}
	runtime.GOMAXPROCS(oldProcs)
	evalKeyExtra = ""
	// relative sources
	if err := c07Relative(c, tree, built, compare); err != nil {
		return err
	}

	// ---------------- family 3 (continued): explicit per-entry mtimes everywhere ----------------
	for i := 0; i < c.N(10, 100); i++ {
		s := genPkgSpec(r, tree)
		s.MTime = c07MTime
		for j := range s.Raw {
			if s.Raw[j].Info == nil {
				s.Raw[j].Info = &wire.FileInfo{}
			}
			s.Raw[j].Info.MTime = 1500000000 + int64(r.Intn(100000))
		}
		withScripts(s)
		s.Describe["explicit_entry_mtimes"] = true
		allowed := allowedFor(disk, s.MTime, s.Raw)
		for _, f := range Formats {
			data, err := BuildPkg(f, s.Info())
			in := s.Input()
			in["format"] = f
			key := fmt.Sprintf("%s|%v", f, s.Input())
			if err != nil {
				famT.Eval(key, false)
				famT.Count("build-error")
				continue
			}
			members, ok := checkStamps(c, famT, "timestamps", f, data, allowed, in)
			famT.Eval(key, ok && members > 1)
			famT.Count("all-entries-explicit-mtime")
		}
	}

	// ---------------- family 2: cross process ----------------
	return c07CrossProcess(c, tree, scriptPath, disk)
}

func c07Relative(c *Ctx, tree *SrcTree, built []*c07Built, compare func(*c07Built, string, []byte, error)) error {
	wd, err := os.Getwd()
	if err != nil {
		return err
	}
	if err := os.Chdir(tree.Root); err != nil {
		return err
	}
	defer os.Chdir(wd) // nolint: errcheck
	prefix := tree.Root + "/"
	relSpec := map[*PkgSpec]*PkgSpec{}
	for _, b := range built {
		rs, seen := relSpec[b.spec]
		if !seen {
			ok, rewritten := true, 0
			raw := make([]wire.Content, len(b.spec.Raw))
			for i, ct := range b.spec.Raw {
				raw[i] = ct
				if ct.Type == "symlink" || ct.Src == "" {
					continue // a symlink's src is its target, not a source file
				}
				if !strings.HasPrefix(ct.Src, prefix) {
					ok = false
					break
				}
				raw[i].Src = strings.TrimPrefix(ct.Src, prefix)
				rewritten++
			}
			if ok && rewritten > 0 {
				cp := *b.spec
				cp.Raw = raw
				rs = &cp
			}
			relSpec[b.spec] = rs
		}
		if rs == nil {
			continue
		}
		data, err := BuildPkg(b.format, rs.Info())
		compare(b, "relative-sources", data, err)
	}
	return nil
}

var c07Ext = map[string]string{"deb": "deb", "rpm": "rpm", "apk": "apk", "ipk": "ipk", "archlinux": "pkg.tar.zst"}

// c07WithChangelogDate: the date the changelog file of the scenarios states for its dated entry is an input
func c07WithChangelogDate(allowed map[int64]string) map[int64]string {
	allowed[1614834367] = "changelog-entry-date" // 2021-03-04T05:06:07Z
	return allowed
}

func c07Config(tree *SrcTree, scriptPath map[string]string, withMTime, relative bool) string {
	src := func(rel string) string {
		if relative {
			return rel
		}
		return filepath.Join(tree.Root, rel)
	}
	var b strings.Builder
	b.WriteString("name: verifpkg\narch: amd64\nplatform: linux\nversion: 1.2.3\nmaintainer: Verif <verif@example.com>\ndescription: verification package\nlicense: MIT\nhomepage: https://example.com\nsection: misc\npriority: optional\n")
	if withMTime {
		b.WriteString("mtime: \"2023-11-14T22:13:20Z\"\n")
	}
	b.WriteString("rpm:\n  buildhost: buildhost.example\n")
	// the changelog with a dated and an undated entry (deb renders the dates as text, rpm stores them)
	if cl := filepath.Join(filepath.Dir(scriptPath["Scripts.PreInstall"]), "changelog.yaml"); scriptPath["Scripts.PreInstall"] != "" {
		if _, err := os.Stat(cl); err == nil {
			fmt.Fprintf(&b, "changelog: %q\n", cl)
		}
	}
	b.WriteString("contents:\n")
	fmt.Fprintf(&b, "  - src: %q\n    dst: /usr/bin/tool\n", src("bin/tool"))
	fmt.Fprintf(&b, "  - src: %q\n    dst: /usr/bin/suid\n    file_info:\n      mode: 04755\n      owner: app\n      mtime: \"2017-07-14T02:40:00Z\"\n", src("bin/suid"))
	fmt.Fprintf(&b, "  - src: %q\n    dst: /etc/app/app.conf\n    type: config|noreplace\n", src("etc/app.conf"))
	fmt.Fprintf(&b, "  - src: %q\n    dst: /etc/app/conf.d\n    type: config\n", src("etc/conf.d/*.conf"))
	b.WriteString("  - dst: /var/lib/app\n    type: dir\n    file_info:\n      mode: 0750\n")
	b.WriteString("  - src: /usr/bin/tool\n    dst: /usr/bin/tool-link\n    type: symlink\n")
	fmt.Fprintf(&b, "  - src: %q\n    dst: /usr/share/app\n    type: tree\n", src("tree"))
	fmt.Fprintf(&b, "  - src: %q\n    dst: /opt/sp ace/file name.txt\n", src("with space/file name.txt"))
	fmt.Fprintf(&b, "scripts:\n  preinstall: %q\n  postinstall: %q\n  preremove: %q\n  postremove: %q\n",
		scriptPath["Scripts.PreInstall"], scriptPath["Scripts.PostInstall"], scriptPath["Scripts.PreRemove"], scriptPath["Scripts.PostRemove"])
	return b.String()
}

func c07CrossProcess(c *Ctx, tree *SrcTree, scriptPath map[string]string, disk map[int64]bool) error {
	bin, err := BuildNfpmBinary(c.Repo, c.Tmp)
	if err != nil {
		return err
	}
	fam := c.Rep.Family("cross-process", "the nfpm binary built from the tree packages one YAML config (mtime 2023-11-14T22:13:20Z, rpm.buildhost fixed, files incl. setuid + explicit per-entry mtime, config, glob, dir, symlink, tree, name with space, four scripts) once per packager and environment: TZ=UTC | TZ=Asia/Tokyo | TZ=America/New_York GOMAXPROCS=1 | GOMAXPROCS=8 | relative sources with the working directory at the tree root; all outputs of one packager must be byte-identical and every timestamp in them sourced; then the config without mtime under SOURCE_DATE_EPOCH=1600000000 and SOURCE_DATE_EPOCH=0 in two timezones each: identical, package-level timestamps equal the epoch, no timestamp unsourced; one evaluation per (config, packager, environment); non-trivial = every case")
	work := filepath.Join(c.Tmp, "xproc")
	if err := os.MkdirAll(work, 0o755); err != nil {
		return err
	}
	for _, z := range []string{"Asia/Tokyo", "America/New_York"} {
		if _, err := os.Stat(filepath.Join("/usr/share/zoneinfo", z)); err != nil {
			c.Rep.Note("cross-process: zoneinfo for %s is missing, the Go runtime falls back to UTC for that variant", z)
		}
	}
	var baseEnv []string
	for _, kv := range os.Environ() {
		if strings.HasPrefix(kv, "TZ=") || strings.HasPrefix(kv, "GOMAXPROCS=") || strings.HasPrefix(kv, "SOURCE_DATE_EPOCH=") {
			continue
		}
		baseEnv = append(baseEnv, kv)
	}
	write := func(name, body string) (string, error) {
		p := filepath.Join(work, name)
		return p, os.WriteFile(p, []byte(body), 0o644)
	}
	cfgAbs, err := write("abs.yaml", c07Config(tree, scriptPath, true, false))
	if err != nil {
		return err
	}
	cfgRel, err := write("rel.yaml", c07Config(tree, scriptPath, true, true))
	if err != nil {
		return err
	}
	cfgSDE, err := write("sde.yaml", c07Config(tree, scriptPath, false, false))
	if err != nil {
		return err
	}
	c07ConcurrentBuilds(c, cfgAbs, c07Config(tree, scriptPath, true, false))
	type variant struct {
		name string
		cfg  string
		dir  string
		env  []string
	}
	run := func(f string, v variant, tag string) ([]byte, error) {
		out := filepath.Join(work, fmt.Sprintf("out-%s-%s.%s", tag, v.name, c07Ext[f]))
		if v.name != "tz-utc" {
			// every variant but the first writes over an older, longer file at its target (a rebuild into the same dist
			// directory): the bytes of the package are a function of the configuration, not of what was there before
			_ = os.WriteFile(out, bytes.Repeat([]byte("older package at this path\n"), 40000), 0o644)
		}
		cmd := exec.Command(bin, "package", "-f", v.cfg, "-p", f, "-t", out)
		cmd.Dir = v.dir
		cmd.Env = append(append([]string{}, baseEnv...), v.env...)
		if o, err := cmd.CombinedOutput(); err != nil {
			return nil, fmt.Errorf("%v: %s", err, o)
		}
		return os.ReadFile(out)
	}
	variants := []variant{
		{"tz-utc", cfgAbs, work, []string{"TZ=UTC"}},
		{"tz-tokyo", cfgAbs, work, []string{"TZ=Asia/Tokyo"}},
		{"tz-newyork-gomaxprocs1", cfgAbs, work, []string{"TZ=America/New_York", "GOMAXPROCS=1"}},
		{"gomaxprocs8", cfgAbs, work, []string{"GOMAXPROCS=8"}},
		{"relative-sources-cwd", cfgRel, tree.Root, []string{"TZ=UTC"}},
	}
	explicit := []wire.Content{{Info: &wire.FileInfo{MTime: 1500000000}}} // 2017-07-14T02:40:00Z
	for _, f := range Formats {
		var first []byte
		for i, v := range variants {
			data, err := run(f, v, "cfg")
			in := map[string]any{"format": f, "config": filepath.Base(v.cfg), "env": v.env, "cwd": v.dir, "config_text": c07Config(tree, scriptPath, true, v.cfg == cfgRel)}
			fam.Eval("cfg|"+f+"|"+v.name, true)
			fam.Count(v.name)
			if err != nil {
				c.Rep.Find(report.Finding{Property: "C07", Family: "cross-process", Shape: f + ":cross-process-differs:" + v.name, What: "nfpm package failed: " + err.Error(), Input: in})
				continue
			}
			if i == 0 || first == nil {
				first = data
				checkStamps(c, fam, "cross-process", f, data, c07WithChangelogDate(allowedFor(disk, c07MTime, explicit)), in)
				if f == "deb" {
					fam.Sample(map[string]any{"input": in, "bytes": len(data)})
				}
				continue
			}
			if !bytes.Equal(first, data) {
				c.Rep.Find(report.Finding{Property: "C07", Family: "cross-process", Shape: f + ":cross-process-differs:" + v.name,
					What: "the package written under " + strings.Join(v.env, " ") + " differs from the one written under " + strings.Join(variants[0].env, " ") + ": " + diffWhat(first, data), Input: in})
			}
		}
	}
	// SOURCE_DATE_EPOCH: an ordinary epoch and the boundary value 0 (1970-01-01 is a fixed mtime like any other)
	for _, sde := range []int64{1600000000, 0} {
		sdeEnv := fmt.Sprintf("SOURCE_DATE_EPOCH=%d", sde)
		sdeTag := fmt.Sprintf("sde%d", sde)
		sdeVariants := []variant{
			{sdeTag + "-tz-utc", cfgSDE, work, []string{sdeEnv, "TZ=UTC"}},
			{sdeTag + "-tz-tokyo", cfgSDE, work, []string{sdeEnv, "TZ=Asia/Tokyo", "GOMAXPROCS=2"}},
		}
		for _, f := range Formats {
			var first []byte
			for i, v := range sdeVariants {
				data, err := run(f, v, sdeTag)
				in := map[string]any{"format": f, "config": filepath.Base(v.cfg), "env": v.env, "config_text": c07Config(tree, scriptPath, false, false)}
				fam.Eval(sdeTag+"|"+f+"|"+v.name, true)
				fam.Count(v.name)
				if err != nil {
					c.Rep.Find(report.Finding{Property: "C07", Family: "cross-process", Shape: f + ":cross-process-differs:" + v.name, What: "nfpm package failed: " + err.Error(), Input: in})
					continue
				}
				if i > 0 && first != nil {
					if !bytes.Equal(first, data) {
						c.Rep.Find(report.Finding{Property: "C07", Family: "cross-process", Shape: f + ":cross-process-differs:" + v.name,
							What: "with SOURCE_DATE_EPOCH fixed the package differs between two runs: " + diffWhat(first, data), Input: in})
					}
					continue
				}
				first = data
				checkStamps(c, fam, "cross-process", f, data, c07WithChangelogDate(allowedFor(disk, sde, explicit)), in)
				dec, derr := DecodePkg(f, data)
				if derr != nil {
					c.Rep.Note("cross-process: decode %s: %v", f, derr)
					continue
				}
				// package-level timestamps: those nfpm itself stamps (not taken from an entry)
				var lvl []stamp
				for _, s := range collectStamps(dec) {
					switch {
					case s.Class == "ar-member", s.Class == "rpm-buildtime", s.Class == "arch-builddate":
						lvl = append(lvl, s)
					case s.Class == "tar-member" && (strings.HasPrefix(s.Where, "control.tar.gz:") || strings.HasPrefix(s.Where, "outer:")):
						lvl = append(lvl, s)
					case s.Class == "tar-member" && f == "archlinux" && (strings.HasSuffix(s.Where, ":.PKGINFO") || strings.HasSuffix(s.Where, ":.MTREE") || strings.HasSuffix(s.Where, ":.INSTALL")):
						lvl = append(lvl, s)
					case s.Class == "mtree-time" && strings.HasSuffix(s.Where, ".PKGINFO"):
						lvl = append(lvl, s)
					case (s.Class == "tar-member" || s.Class == "mtree-time") && (strings.HasSuffix(s.Where, ":usr/") || strings.HasSuffix(s.Where, ":./usr/") || strings.HasSuffix(s.Where, ":usr") || strings.HasSuffix(s.Where, ":./usr")):
						lvl = append(lvl, s) // implicit parent directory: stamped with the package mtime
					}
				}
				fam.Count(fmt.Sprintf("%s:package-level-stamps=%d", f, len(lvl)))
				var bad []string
				for _, s := range lvl {
					if s.Val != sde {
						bad = append(bad, fmt.Sprintf("%s=%d", s.Where, s.Val))
					}
				}
				sort.Strings(bad)
				if len(bad) > 0 || (len(lvl) == 0 && f != "rpm") {
					c.Rep.Find(report.Finding{Property: "C07", Family: "cross-process", Shape: f + ":source-date-epoch-ignored",
						What: fmt.Sprintf("SOURCE_DATE_EPOCH=%d and no mtime configured, yet package-level timestamps differ from it (%d checked): %s", sde, len(lvl), strings.Join(bad, " ")), Input: in})
				}
			}
		}
	}
	return nil
}
