package props

import (
	"fmt"
	"os"
	"path/filepath"
	"reflect"
	"sort"
	"strings"
	"time"

	"github.com/goreleaser/nfpm/v2"
	"gopkg.in/yaml.v3"
	"verif/harness/internal/report"
	"verif/harness/internal/rng"
	"verif/harness/internal/wire"
)

func init() { Registry["C16"] = runC16 }

func encEnv(env map[string]string) string {
	keys := make([]string, 0, len(env))
	for k := range env {
		keys = append(keys, k)
	}
	sort.Strings(keys)
	var b strings.Builder
	fmt.Fprintf(&b, "%d", len(keys))
	for _, k := range keys {
		fmt.Fprintf(&b, " %s %s", wire.H(k), wire.H(env[k]))
	}
	return b.String()
}

// keyPathsOf returns the model's reflected key tree: yaml path -> kind
func keyPathsOf(c *Ctx) (map[string]string, []string, error) {
	a, err := c.D.Ask("g5paths")
	if err != nil {
		return nil, nil, err
	}
	l, err := wire.ParseBytesList(a)
	if err != nil {
		return nil, nil, err
	}
	m := map[string]string{}
	var order []string
	for _, e := range l {
		i := strings.LastIndex(e, ":")
		m[e[:i]] = e[i+1:]
		order = append(order, e[:i])
	}
	return m, order, nil
}

// docFor builds a YAML document tree that contains `path` with the given leaf
// value.  injectLevel -1: the minimal document (the leaf and the required top-level keys); docFilled: the object that
// holds the leaf is filled in completely; >= 0: filled in, and an unknown key added at that object nesting level.
// docInjectKey is the unknown key docFor injects (the strict family runs with more than one spelling)
var docInjectKey = "zzz_unknown_key"

const docFilled = -2
const docSchemaNone = -3

func docFor(kinds map[string]string, path string, leaf any, injectLevel int) map[string]any {
	root := map[string]any{"name": "p", "arch": "amd64", "version": "1.0.0"}
	segs := strings.Split(path, ".")
	var build func(i int, objLevel int) any
	build = func(i int, objLevel int) any {
		if i == len(segs) {
			return leaf
		}
		seg := segs[i]
		switch seg {
		case "[]":
			return []any{build(i+1, objLevel)}
		case "{}":
			return map[string]any{"deb": build(i+1, objLevel)}
		}
		m := map[string]any{seg: build(i+1, objLevel+1)}
		if i == len(segs)-1 && injectLevel != -1 {
			// the object that holds the leaf is filled in completely (every scalar sibling with a typed value): a
			// document must not be rejected for an unrelated reason – a required sibling that is missing – when what
			// is being asked is whether an unknown key next to the leaf is noticed
			prefix := strings.Join(segs[:i], ".")
			for q, k := range kinds {
				if prefix == "" || !strings.HasPrefix(q, prefix+".") {
					continue
				}
				rest := strings.TrimPrefix(q, prefix+".")
				if strings.Contains(rest, ".") || rest == seg {
					continue
				}
				switch k {
				case "string", "int", "bool":
					if !docSiblingSkip[strings.TrimPrefix(q, "overrides.{}.")] {
						m[rest] = leafFor(k)
					}
				}
			}
		}
		if objLevel == injectLevel {
			m[docInjectKey] = "x"
		}
		return m
	}
	// merge first segment into root
	sub := build(0, 0).(map[string]any)
	for k, v := range sub {
		root[k] = v
	}
	return root
}

// docSiblingSkip: sibling keys that are not filled in with a generic typed value because only particular values are
// valid for them (enumerated settings, paths that must exist); the leaf under test is still set by the caller.
var docSiblingSkip = map[string]bool{"rpm.compression": true, "deb.compression": true, "deb.signature.method": true, "deb.signature.type": true,
	"version_schema": true, "contents.[].type": true, "contents.[].packager": true, "contents.[].src": true, "contents.[].dst": true, "contents.[].expand": true,
	"version": true, "name": true, "arch": true, "epoch": true, "release": true, "prerelease": true, "version_metadata": true, "platform": true,
	"changelog": true, "mtime": true, "umask": true, "disable_globbing": true}

// objectLevels counts the object nesting levels on a path (where a key could be misspelled)
func objectLevels(path string) int {
	n := 0
	for _, s := range strings.Split(path, ".") {
		if s != "[]" && s != "{}" {
			n++
		}
	}
	return n
}

func leafFor(kind string) any {
	switch kind {
	case "string":
		return "value"
	case "bool":
		return true
	case "int":
		return 7
	case "time":
		return time.Unix(1700000000, 0).UTC()
	case "list":
		return []any{}
	case "map", "object":
		return map[string]any{}
	}
	return "value"
}

// getByYamlPath reads a field of the parsed config by yaml path.
func getByYamlPath(v reflect.Value, segs []string) (reflect.Value, bool) {
	for v.Kind() == reflect.Ptr {
		if v.IsNil() {
			return v, false
		}
		v = v.Elem()
	}
	if len(segs) == 0 {
		return v, true
	}
	switch segs[0] {
	case "[]":
		if v.Kind() != reflect.Slice || v.Len() == 0 {
			return v, false
		}
		return getByYamlPath(v.Index(0), segs[1:])
	case "{}":
		if v.Kind() != reflect.Map || v.Len() == 0 {
			return v, false
		}
		return getByYamlPath(v.MapIndex(v.MapKeys()[0]), segs[1:])
	}
	if v.Kind() != reflect.Struct {
		return v, false
	}
	t := v.Type()
	for i := 0; i < t.NumField(); i++ {
		f := t.Field(i)
		tag := strings.Split(f.Tag.Get("yaml"), ",")
		if len(tag) > 1 && tag[1] == "inline" || (len(tag) > 1 && contains(tag[1:], "inline")) {
			if r, ok := getByYamlPath(v.Field(i), segs); ok {
				return r, true
			}
			continue
		}
		if tag[0] == segs[0] {
			return getByYamlPath(v.Field(i), segs[1:])
		}
	}
	return v, false
}

func contains(xs []string, x string) bool {
	for _, y := range xs {
		if y == x {
			return true
		}
	}
	return false
}

func runC16(c *Ctx) error {
	r := c.R.Fork("c16")
	// ---- os.Expand transcription
	fam := c.Rep.Family("os-expand", "random strings over the syntax of shell references ($NAME, ${NAME}, ${}, ${, $$, $1, $?, trailing $, unicode) against random environments: model `expand` vs Go's os.Expand; non-trivial = contains '$'")
	frag := []string{"$", "${", "}", "{", "A", "B_1", "a", " ", "-", "$A", "${B_1}", "${}", "$$", "$1", "$?", "${*}", "é", "_", "x", "${A", "$-"}
	names := []string{"A", "B_1", "a", "1", "?", "$", "*", "A_", "x", "-"}
	n := c.N(5000, 200000)
	var reqs []string
	type ec struct {
		s   string
		env map[string]string
	}
	var cases []ec
	for i := 0; i < n; i++ {
		var b strings.Builder
		k := r.Intn(7)
		for j := 0; j < k; j++ {
			b.WriteString(rng.Pick(r, frag))
		}
		env := map[string]string{}
		for j := 0; j < r.Intn(4); j++ {
			env[rng.Pick(r, names)] = rng.Pick(r, []string{"", "v", " sp ", "$A", "x y"})
		}
		cases = append(cases, ec{b.String(), env})
		reqs = append(reqs, fmt.Sprintf("expand %s %s", encEnv(env), wire.H(b.String())))
	}
	ans, err := c.D.Batch(reqs)
	if err != nil {
		return err
	}
	for i, cs := range cases {
		want := os.Expand(cs.s, func(k string) string { return cs.env[k] })
		fam.Eval(cs.s+fmt.Sprint(cs.env), strings.Contains(cs.s, "$"))
		if got, _ := wire.UnH(ans[i]); got != want {
			c.Rep.Disagree(report.Disagreement{Family: "os-expand", What: "os.Expand vs model", Input: map[string]any{"s": cs.s, "env": cs.env}, Model: fmt.Sprintf("%q", got), Impl: fmt.Sprintf("%q", want)})
		}
	}
	fam.Sample(map[string]any{"s": cases[0].s, "env": cases[0].env})

	kinds, order, err := keyPathsOf(c)
	if err != nil {
		return err
	}
	// ---- strictness: every key path, an unknown key injected at every object level
	fam2 := c.Rep.Family("strict", fmt.Sprintf("every key path of the reflected configuration tree (%d paths): the minimal document containing it must parse, and the same document with an unknown key injected at each object nesting level on the path must be rejected by nfpm.ParseWithEnvMapping; non-trivial = injected variants", len(order)))
	fam2.Exhaustive = true
	parse := func(doc map[string]any, env map[string]string) (nfpm.Config, error) {
		b, err := yaml.Marshal(doc)
		if err != nil {
			return nfpm.Config{}, err
		}
		return nfpm.ParseWithEnvMapping(strings.NewReader(string(b)), func(k string) string { return env[k] })
	}
	for _, p := range order {
		leaf := leafFor(kinds[p])
		if _, err := parse(docFor(kinds, p, leaf, -1), nil); err != nil {
			fam2.Eval(p, false)
			c.Rep.Disagree(report.Disagreement{Family: "strict", What: "reflected key path is not accepted by the parser", Input: map[string]any{"path": p}, Model: "accepted", Impl: err.Error()})
			continue
		}
		fam2.Eval(p, false)
		// the configuration is what the whole input says: a second YAML document after the valid one, holding an unknown
		// key, must not be dropped silently
		if b, merr := yaml.Marshal(docFor(kinds, p, leaf, -1)); merr == nil && (p == order[0] || p == order[len(order)/2] || p == order[len(order)-1]) {
			two := string(b) + "---\nzzz_unknown_key: x\n"
			_, terr := nfpm.ParseWithEnvMapping(strings.NewReader(two), func(string) string { return "" })
			fam2.Eval(p+"|second-document", true)
			if terr == nil {
				c.Rep.Find(report.Finding{Property: "C16", Family: "strict", Shape: "second-document-ignored", What: "an input whose second YAML document holds an unknown key was accepted: everything after the first document is ignored silently", Input: map[string]any{"path": p, "document": two}})
			}
		}
		if _, err := parse(docFor(kinds, p, leaf, docFilled), nil); err != nil {
			c.Rep.Disagree(report.Disagreement{Family: "strict", What: "reflected key path with all scalar siblings set is not accepted by the parser", Input: map[string]any{"path": p}, Model: "accepted", Impl: err.Error()})
			continue
		}
		for lvl := 0; lvl < objectLevels(p); lvl++ {
			// the same injection under a name of the kind other tools reserve for extensions (x-…): nfpm defines no
			// such key either
			docInjectKey = "x-verif-extension"
			if _, xerr := parse(docFor(kinds, p, leaf, lvl), nil); xerr == nil {
				b, _ := yaml.Marshal(docFor(kinds, p, leaf, lvl))
				c.Rep.Find(report.Finding{Property: "C16", Family: "strict", Shape: "unknown-key-accepted:x-prefixed", What: "a document with an unknown key named x-… was accepted", Input: map[string]any{"path": p, "level": lvl, "document": string(b)}})
			}
			fam2.Eval(fmt.Sprintf("%s@%d|x-", p, lvl), true)
			docInjectKey = "zzz_unknown_key"
			doc := docFor(kinds, p, leaf, lvl)
			_, err := parse(doc, nil)
			fam2.Eval(fmt.Sprintf("%s@%d", p, lvl), true)
			if err == nil {
				b, _ := yaml.Marshal(doc)
				c.Rep.Find(report.Finding{Property: "C16", Family: "strict", Shape: "unknown-key-accepted", What: "a document with an unknown key was accepted", Input: map[string]any{"path": p, "level": lvl, "document": string(b)}})
			}
			// the same document read from a file path (nfpm.ParseFile, what `nfpm package -f` does)
			if b, merr := yaml.Marshal(doc); merr == nil {
				fp := filepath.Join(c.Tmp, "c16-strict.yaml")
				if os.WriteFile(fp, b, 0o644) == nil {
					_, ferr := nfpm.ParseFileWithEnvMapping(fp, func(string) string { return "" })
					fam2.Eval(fmt.Sprintf("%s@%d|file", p, lvl), true)
					if ferr == nil {
						c.Rep.Find(report.Finding{Property: "C16", Family: "strict", Shape: "unknown-key-accepted:from-a-file", What: "a configuration file with an unknown key was accepted by nfpm.ParseFile (the same document is rejected when it is read from a reader)", Input: map[string]any{"path": p, "level": lvl, "document": string(b)}})
					}
				}
			}
			// the same place, the unknown key spelled as the YAML null (`~: x`): a key the parser does not define either
			if b, merr := yaml.Marshal(doc); merr == nil && strings.Contains(string(b), "zzz_unknown_key:") {
				nullDoc := strings.Replace(string(b), "zzz_unknown_key:", "~:", 1)
				_, nerr := nfpm.ParseWithEnvMapping(strings.NewReader(nullDoc), func(string) string { return "" })
				fam2.Eval(fmt.Sprintf("%s@%d|null-key", p, lvl), true)
				if nerr == nil {
					c.Rep.Find(report.Finding{Property: "C16", Family: "strict", Shape: "null-key-accepted", What: "a document with a key that is the YAML null (`~`) next to the defined keys was accepted: the key and everything below it is ignored silently", Input: map[string]any{"path": p, "level": lvl, "document": nullDoc}})
				}
			}
		}
	}
	fam2.Sample(map[string]any{"path": "deb.signature.key_file", "injected_levels": 3})

	// ---- expansion scope: every string-valued path with and without a reference
	a, err := c.D.Ask("g4paths")
	if err != nil {
		return err
	}
	toks := strings.Fields(a)
	var lists [3][]string
	pos := 0
	for li := 0; li < 3; li++ {
		var cnt int
		fmt.Sscanf(toks[pos], "%d", &cnt)
		for j := 0; j < cnt; j++ {
			s, _ := wire.UnH(toks[pos+1+j])
			lists[li] = append(lists[li], s)
		}
		pos += 1 + cnt
	}
	expScalar, expSlice := map[string]bool{}, map[string]bool{}
	for _, p := range lists[0] {
		expScalar[p] = true
	}
	for _, p := range lists[1] {
		expSlice[p+".[]"] = true
	}
	fam3 := c.Rep.Family("expansion-scope", "every string-valued key path: values '${VERIF_X}', '$VERIF_X', 'lib-$VERIF_X.so', '/usr/$VERIF_X/${VERIF_X}x' under a mapping VERIF_X -> ' exp ' must be substituted (what a value denotes: the model of os.Expand) iff the source passes the field through os.Expand (static table G4), and a '$'-free value must come back as written (list items only trimmed); a substituted value that itself contains '$' must not be expanded again (one pass); contents src/dst with and without expand: true; passphrase precedence over all 16 combinations of the four NFPM_*PASSPHRASE variables; non-trivial = every case")
	env := map[string]string{"VERIF_X": " exp "}
	// the caller's mapping is the whole scope of a reference: variables of the process environment that the mapping
	// does not define (here: set in the harness's own environment for the rest of this property's run) denote nothing
	for _, k := range []string{"VERIF_PROC", "NONE", "NFPM_PASSPHRASE", "NFPM_DEB_PASSPHRASE", "NFPM_RPM_PASSPHRASE", "NFPM_APK_PASSPHRASE"} {
		os.Setenv(k, "leak-from-process")
		defer os.Unsetenv(k)
	}
	for _, p := range order {
		if kinds[p] != "string" {
			continue
		}
		if strings.Contains(p, "contents.[]") {
			continue
		}
		// once alone in the document and once with every scalar sibling set (whether a field is expanded must not
		// depend on which of its neighbours are configured)
		// the version fields once more under version_schema: none (the schema governs how the version is taken apart,
		// not whether references in it are resolved)
		modes := []int{-1, docFilled}
		if p == "version" || p == "prerelease" || p == "release" || p == "version_metadata" || p == "epoch" {
			modes = append(modes, docSchemaNone)
		}
		for _, mode := range modes {
			for _, val := range []string{"${VERIF_X}", "plain value", " padded ", "$VERIF_X", "lib-$VERIF_X.so", "/usr/$VERIF_X/${VERIF_X}x", "a-${VERIF_PROC}-b"} {
				doc := docFor(kinds, p, val, mode)
				if mode == docSchemaNone {
					doc = docFor(kinds, p, val, -1)
					doc["version_schema"] = "none"
				}
				cfg, err := parse(doc, env)
				fam3.Eval(fmt.Sprintf("%s|%s|%d", p, val, mode), true)
				if err != nil {
					continue // e.g. enumerated/invalid for that field: not this property's business
				}
				got, ok := getByYamlPath(reflect.ValueOf(cfg), strings.Split(p, "."))
				if !ok || got.Kind() != reflect.String {
					continue
				}
				g := got.String()
				var want string
				hasRef := strings.Contains(val, "$")
				// what the reference denotes: the model of os.Expand (family os-expand ties it to the library)
				denoted := val
				if hasRef {
					if a, derr := c.D.Ask(fmt.Sprintf("expand %s %s", encEnv(env), wire.H(val))); derr == nil {
						denoted, _ = wire.UnH(a)
					}
				}
				switch {
				case hasRef && expScalar[p]:
					want = denoted
				case hasRef && expSlice[p]:
					want = strings.TrimSpace(denoted)
				case expSlice[p]:
					want = strings.TrimSpace(val)
				default:
					want = val
				}
				if p == "version" || p == "platform" || p == "arch" || p == "description" {
					// defaults / semver normalisation rewrite these: only check the substitution happened
					if hasRef && strings.Contains(g, "VERIF_X") {
						c.Rep.Find(report.Finding{Property: "C16", Family: "expansion-scope", Shape: "documented-field-not-expanded", What: p + " kept the reference", Input: map[string]any{"path": p}})
					}
					continue
				}
				if hasRef && strings.Contains(g, "leak-from-process") {
					c.Rep.Find(report.Finding{Property: "C16", Family: "expansion-scope", Shape: "reference-resolved-outside-the-mapping", What: fmt.Sprintf("%s: %q became %q: VERIF_PROC is not defined by the mapping handed to ParseWithEnvMapping, the value is the one of the process environment", p, val, g), Input: map[string]any{"path": p, "value": val, "mapping": env, "process_environment": "VERIF_PROC=leak-from-process"}})
					continue
				}
				if g != want {
					shape := "value-changed"
					if hasRef {
						shape = "expansion-table-differs"
					}
					c.Rep.Disagree(report.Disagreement{Family: "expansion-scope", What: shape + ": parsed value vs static table G4", Input: map[string]any{"path": p, "value": val}, Model: fmt.Sprintf("%q", want), Impl: fmt.Sprintf("%q", g)})
					if !hasRef {
						c.Rep.Find(report.Finding{Property: "C16", Family: "expansion-scope", Shape: "dollar-free-value-changed", What: fmt.Sprintf("%s: %q became %q", p, val, g), Input: map[string]any{"path": p, "value": val}})
					} else if val != "${VERIF_X}" && (expScalar[p] || expSlice[p]) {
						// the field is one that is expanded (the braced form is): every form of reference must be
						c.Rep.Find(report.Finding{Property: "C16", Family: "expansion-scope", Shape: "reference-form-not-substituted", What: fmt.Sprintf("%s: %q became %q, the reference denotes %q", p, val, g, want), Input: map[string]any{"path": p, "value": val, "mapping": env}})
					}
				}
			}
		}
	}
	// exactly one pass: the mapping's own values are data, a '$' inside them is not a reference
	env2 := map[string]string{"VERIF_Z": "pre $VERIF_Y post", "VERIF_Y": "SECOND"}
	for _, p := range order {
		if kinds[p] != "string" || strings.Contains(p, "contents.[]") {
			continue
		}
		cfg, err := parse(docFor(kinds, p, "${VERIF_Z}", -1), env2)
		fam3.Eval(p+"|single-pass", true)
		if err != nil {
			continue
		}
		got, ok := getByYamlPath(reflect.ValueOf(cfg), strings.Split(p, "."))
		if !ok || got.Kind() != reflect.String {
			continue
		}
		if g := got.String(); strings.Contains(g, "SECOND") || (strings.Contains(g, "pre") && !strings.Contains(g, "$VERIF_Y")) {
			c.Rep.Find(report.Finding{Property: "C16", Family: "expansion-scope", Shape: "value-expanded-twice",
				What:  fmt.Sprintf("%s: the value ${VERIF_Z} with VERIF_Z=%q, VERIF_Y=%q became %q: the substituted text was expanded again", p, env2["VERIF_Z"], env2["VERIF_Y"], g),
				Input: map[string]any{"path": p, "value": "${VERIF_Z}", "mapping": env2}})
		}
	}
	// contents opt-in, every form of reference
	for _, opt := range []bool{false, true} {
		for _, form := range [][2]string{{"${VERIF_X}/a", "/opt/${VERIF_X}"}, {"$VERIF_X/a", "/opt/$VERIF_X"}, {"/src/$VERIF_X.so", "/usr/lib/$VERIF_X/lib${VERIF_X}.so"}, {"plain/src", "/plain/dst"}} {
			doc := map[string]any{"name": "p", "arch": "amd64", "version": "1.0.0",
				"contents": []any{map[string]any{"src": form[0], "dst": form[1], "expand": opt}}}
			cfg, err := parse(doc, env)
			fam3.Eval(fmt.Sprint("contents-expand=", opt, form), true)
			if err != nil || len(cfg.Contents) != 1 {
				continue
			}
			ct := cfg.Contents[0]
			wantS, wantD := form[0], form[1]
			if opt {
				for k, v := range [2]*string{&wantS, &wantD} {
					if a, derr := c.D.Ask(fmt.Sprintf("expand %s %s", encEnv(env), wire.H(form[k]))); derr == nil {
						d, _ := wire.UnH(a)
						*v = strings.TrimSpace(d)
					}
				}
			}
			if ct.Source != wantS || ct.Destination != wantD {
				c.Rep.Find(report.Finding{Property: "C16", Family: "expansion-scope", Shape: fmt.Sprintf("contents-expand-%v", opt),
					What:  fmt.Sprintf("src %q dst %q with expand: %v parsed to src=%q dst=%q, expected src=%q dst=%q", form[0], form[1], opt, ct.Source, ct.Destination, wantS, wantD),
					Input: map[string]any{"expand": opt, "src": form[0], "dst": form[1], "mapping": env}})
			}
		}
	}
	// passphrase precedence
	vars := []string{"NFPM_PASSPHRASE", "NFPM_DEB_PASSPHRASE", "NFPM_RPM_PASSPHRASE", "NFPM_APK_PASSPHRASE"}
	for mask := 0; mask < 16; mask++ {
		e := map[string]string{}
		for i, v := range vars {
			if mask&(1<<i) != 0 {
				e[v] = "pw-" + v
			}
		}
		cfg, err := parse(map[string]any{"name": "p", "arch": "amd64", "version": "1.0.0"}, e)
		if err != nil {
			return err
		}
		got := map[string]string{"NFPM_DEB_PASSPHRASE": cfg.Deb.Signature.KeyPassphrase, "NFPM_RPM_PASSPHRASE": cfg.RPM.Signature.KeyPassphrase, "NFPM_APK_PASSPHRASE": cfg.APK.Signature.KeyPassphrase}
		for v, g := range got {
			ans, _ := c.D.Ask(fmt.Sprintf("passphrase %s %s", encEnv(e), wire.H(v)))
			m, _ := wire.UnH(ans)
			fam3.Eval(fmt.Sprint(mask, v), true)
			if m != g {
				c.Rep.Disagree(report.Disagreement{Family: "expansion-scope", What: "passphrase precedence", Input: map[string]any{"env": e, "var": v}, Model: m, Impl: g})
			}
			want := e[v]
			if want == "" {
				want = e["NFPM_PASSPHRASE"]
			}
			if g != want {
				c.Rep.Find(report.Finding{Property: "C16", Family: "expansion-scope", Shape: "passphrase-precedence", What: fmt.Sprintf("%s: got %q want %q", v, g, want), Input: map[string]any{"env": e}})
			}
		}
	}
	// list items: dropped when expanding to nothing, trimmed, order kept
	for i := 0; i < c.N(300, 5000); i++ {
		var items []string
		for j := 0; j < 1+r.Intn(5); j++ {
			items = append(items, rng.Pick(r, []string{"a", " b ", "${VERIF_X}", "${NONE}", "$NONE", "c (>= 1.0)", "", "  ", "${VERIF_X}-x"}))
		}
		doc := map[string]any{"name": "p", "arch": "amd64", "version": "1.0.0", "depends": toAny(items)}
		cfg, err := parse(doc, env)
		if err != nil {
			continue
		}
		ans, _ := c.D.Ask(fmt.Sprintf("expandslice %s %s", encEnv(env), encBytesList(items)))
		ml, _ := wire.ParseBytesList(ans)
		fam3.Eval("depends:"+strings.Join(items, "|"), true)
		if strings.Join(ml, "\x00") != strings.Join(cfg.Depends, "\x00") {
			c.Rep.Disagree(report.Disagreement{Family: "expansion-scope", What: "expandEnvVarsStringSlice", Input: map[string]any{"items": items}, Model: fmt.Sprintf("%q", ml), Impl: fmt.Sprintf("%q", cfg.Depends)})
		}
		// the statement itself, on the real result: no item that is empty or blank survives, and every item is trimmed
		for _, it := range cfg.Depends {
			if strings.TrimSpace(it) == "" || strings.TrimSpace(it) != it {
				c.Rep.Find(report.Finding{Property: "C16", Family: "expansion-scope", Shape: "list-item-empty-or-untrimmed",
					What:  fmt.Sprintf("depends %q parsed (environment %v) to %q: the item %q expands to nothing / is not trimmed but is kept", items, env, cfg.Depends, it),
					Input: map[string]any{"items": items, "env": env}})
				break
			}
		}
	}
	// ---- maps of custom fields: every value is expanded, whatever the other values of the map look like and in
	// whatever order the map is walked (Go walks maps in a random order: the same document is parsed many times)
	{
		famF := c.Rep.Family("custom-field-maps", "deb.fields and ipk.fields with literal values and references side by side (8 entries), the same document parsed 60 times with ParseWithEnvMapping: every reference substituted, every literal as written, in every parse; non-trivial = always")
		doc := "name: p\narch: amd64\nversion: 1.0.0\n"
		for _, blk := range []string{"deb", "ipk"} {
			doc += blk + ":\n  fields:\n    Bugs: https://example.com/bugs\n    Built-By: ${C16_WHO}\n    Origin: example\n    Vcs-Git: $C16_GIT\n    Comment: plain words\n    Source-Date: \"${C16_DATE}\"\n    Flag: \"yes\"\n    Who-Again: \"by ${C16_WHO}\"\n"
		}
		env := map[string]string{"C16_WHO": "builder-7", "C16_GIT": "git://example.com/x", "C16_DATE": "2024-01-02"}
		want := map[string]string{"Bugs": "https://example.com/bugs", "Built-By": "builder-7", "Origin": "example", "Vcs-Git": "git://example.com/x", "Comment": "plain words", "Source-Date": "2024-01-02", "Flag": "yes", "Who-Again": "by builder-7"}
	parses:
		for i := 0; i < 60; i++ {
			cfg, err := nfpm.ParseWithEnvMapping(strings.NewReader(doc), func(k string) string { return env[k] })
			famF.Eval(fmt.Sprintf("parse-%d", i), true)
			if err != nil {
				c.Rep.Note("custom-field-maps: %v", err)
				break
			}
			for blk, m := range map[string]map[string]string{"deb": cfg.Deb.Fields, "ipk": cfg.IPK.Fields} {
				for k, w := range want {
					if m[k] != w {
						c.Rep.Find(report.Finding{Property: "C16", Family: "custom-field-maps", Shape: "custom-field-value-not-expanded-or-changed:" + blk,
							What:  fmt.Sprintf("%s.fields[%s] = %q after parsing (parse %d of the same document), expected %q", blk, k, m[k], i+1, w),
							Input: map[string]any{"document": doc, "mapping": env}})
						break parses
					}
				}
			}
		}
	}
	// ---- a value that comes from the environment means what the same value written out means: the settings derived from
	// the documented expandable fields (the split of a semantic version, the architecture without GoReleaser's float
	// suffix, defaults for an empty platform / description) do not depend on where the value came from
	{
		famR := c.Rep.Family("reference-equals-literal", "exhaustive: {version, arch, platform, description, release, prerelease} x values whose meaning is derived after expansion (v-prefixed / short / prerelease+metadata versions, mips…softfloat, the empty string): the document with `${VAR}` and the mapping, against the document with the value written out; every field of the parsed Info compared; non-trivial = always")
		famR.Exhaustive = true
		type rc struct{ field, value string }
		for _, x := range []rc{{"version", "v1.2.3-beta1+git.abcdef"}, {"version", "2"}, {"version", "1.4-rc.1"}, {"version", "v3.0.0"}, {"arch", "mipssoftfloat"}, {"arch", "mips64lehardfloat"},
			{"platform", ""}, {"description", ""}, {"release", "2"}, {"prerelease", "rc1"}, {"platform", "freebsd"}} {
			base := map[string]string{"name": "p", "arch": "amd64", "version": "1.0.0", "platform": "linux", "description": "d", "release": "1", "prerelease": ""}
			mk := func(v string) string {
				var b strings.Builder
				for _, k := range []string{"name", "arch", "version", "platform", "description", "release", "prerelease"} {
					val := base[k]
					if k == x.field {
						val = v
					}
					fmt.Fprintf(&b, "%s: %q\n", k, val)
				}
				return b.String()
			}
			ref, rerr := nfpm.ParseWithEnvMapping(strings.NewReader(mk("${C16_VALUE}")), func(k string) string {
				if k == "C16_VALUE" {
					return x.value
				}
				return ""
			})
			lit, lerr := nfpm.ParseWithEnvMapping(strings.NewReader(mk(x.value)), func(string) string { return "" })
			famR.Eval(x.field+"="+x.value, true)
			if (rerr == nil) != (lerr == nil) {
				c.Rep.Find(report.Finding{Property: "C16", Family: "reference-equals-literal", Shape: "reference-and-literal-differ:" + x.field,
					What:  fmt.Sprintf("%s: ${C16_VALUE} with C16_VALUE=%q: %v; written out: %v", x.field, x.value, rerr, lerr),
					Input: map[string]any{"field": x.field, "value": x.value}})
				continue
			}
			if rerr != nil {
				continue
			}
			a := fmt.Sprintf("version=%q prerelease=%q metadata=%q release=%q arch=%q platform=%q description=%q", ref.Version, ref.Prerelease, ref.VersionMetadata, ref.Release, ref.Arch, ref.Platform, ref.Description)
			b := fmt.Sprintf("version=%q prerelease=%q metadata=%q release=%q arch=%q platform=%q description=%q", lit.Version, lit.Prerelease, lit.VersionMetadata, lit.Release, lit.Arch, lit.Platform, lit.Description)
			if a != b {
				c.Rep.Find(report.Finding{Property: "C16", Family: "reference-equals-literal", Shape: "reference-and-literal-differ:" + x.field,
					What:  fmt.Sprintf("%s: ${C16_VALUE} with C16_VALUE=%q parses to %s; the value written out parses to %s", x.field, x.value, a, b),
					Input: map[string]any{"field": x.field, "value": x.value}})
			}
		}
		// … and a value without a `$` is left as written whatever the mapping offers – a leading `~` included (HOME is just
		// another variable of the mapping)
		for _, kf := range []string{"~/keys/deb.asc", "~", "~user/key.asc", "/abs/~/key.asc"} {
			doc := fmt.Sprintf("name: p\narch: amd64\nversion: 1.0.0\ndeb:\n  signature:\n    key_file: %q\nrpm:\n  signature:\n    key_file: %q\napk:\n  signature:\n    key_file: %q\n", kf, kf, kf)
			cfg, err := nfpm.ParseWithEnvMapping(strings.NewReader(doc), func(k string) string {
				return map[string]string{"HOME": "/home/ci", "USER": "ci", "USERPROFILE": "C:/Users/ci"}[k]
			})
			famR.Eval("key_file="+kf, true)
			if err != nil {
				continue
			}
			for blk, got := range map[string]string{"deb": cfg.Deb.Signature.KeyFile, "rpm": cfg.RPM.Signature.KeyFile, "apk": cfg.APK.Signature.KeyFile} {
				if got != kf {
					c.Rep.Find(report.Finding{Property: "C16", Family: "reference-equals-literal", Shape: "dollar-free-value-changed:key_file",
						What:  fmt.Sprintf("%s.signature.key_file is written %q (no `$` in it) and parses to %q when the mapping defines HOME", blk, kf, got),
						Input: map[string]any{"document": doc, "mapping": "HOME=/home/ci USER=ci"}})
				}
			}
		}
	}
	return nil
}

func toAny(ss []string) []any {
	r := make([]any, len(ss))
	for i, s := range ss {
		r[i] = s
	}
	return r
}
