package props

import (
	"crypto/md5"
	"crypto/sha1"
	"encoding/hex"
	"fmt"
	"io"
	"path/filepath"
	"strconv"

	"github.com/goreleaser/nfpm/v2"
	"verif/harness/internal/report"
	"verif/harness/internal/wire"
)

// c03DpkgSigFiles: a deb signed the dpkg-sig way carries, inside the signed text of its _gpgbuilder member, one
// "md5 sha1 size name" line per member – digests and sizes the package states about itself. Each line must name an ar
// member of the package and match its bytes as stored, for every compression setting (the data member's name follows
// the compressor). The signer is a callback that records the text it is handed; no key is involved.
func c03DpkgSigFiles(c *Ctx) error {
	fam := c.Rep.Family("dpkg-sig-files", "exhaustive: deb signed with method dpkg-sig through a recording callback x deb.compression in {'', gzip, xz, zstd, none} x two payloads: every line of the signed Files list (md5, sha1, size, name) against the ar member of that name as stored; non-trivial = always")
	fam.Exhaustive = true
	tree, err := MkTree(filepath.Join(c.Tmp, "src-dpkgsig"), 0)
	if err != nil {
		return err
	}
	payloads := [][]wire.Content{
		{{Src: filepath.Join(tree.Root, "bin/tool"), Dst: "/usr/bin/tool"}},
		{{Src: filepath.Join(tree.Root, "etc/app.conf"), Dst: "/etc/app/app.conf", Type: "config"}, {Src: filepath.Join(tree.Root, "share/doc/README"), Dst: "/usr/share/doc/app/README"}},
	}
	for pi, raw := range payloads {
		for _, comp := range []string{"", "gzip", "xz", "zstd", "none"} {
			var signed []byte
			s := &PkgSpec{Raw: raw, Umask: 0o022, MTime: 1700000000, Mutate: func(info *nfpm.Info) {
				info.Deb.Compression = comp
				info.Deb.Signature.Method = "dpkg-sig"
				info.Deb.Signature.SignFn = func(r io.Reader) ([]byte, error) {
					b, err := io.ReadAll(r)
					signed = b
					return []byte("-----BEGIN PGP SIGNATURE-----\n\nrecorded\n-----END PGP SIGNATURE-----\n"), err
				}
			}}
			in := map[string]any{"format": "deb", "deb.compression": comp, "deb.signature.method": "dpkg-sig", "payload": pi}
			data, err := BuildPkg("deb", s.Info())
			fam.Eval(fmt.Sprintf("%d|%s", pi, comp), err == nil)
			if err != nil {
				c.Rep.Note("dpkg-sig-files: build with compression %q: %v", comp, err)
				continue
			}
			dec, err := DecodePkg("deb", data)
			if err != nil || dec.Deb == nil {
				c.Rep.Note("dpkg-sig-files: decode: %v", err)
				continue
			}
			m, err := c10parseManifest(signed)
			if err != nil {
				c.Rep.Find(report.Finding{Property: "C03", Family: "dpkg-sig-files", Shape: "deb:dpkg-sig-files:unreadable",
					What: "the text handed to the signer has no readable Files list: " + err.Error(), Input: in})
				continue
			}
			for _, f := range m.Files {
				var body []byte
				found := false
				for _, am := range dec.Deb.Members {
					if am.Name == f[3] {
						body, found = am.Body, true
						break
					}
				}
				if !found {
					var names []string
					for _, am := range dec.Deb.Members {
						names = append(names, am.Name)
					}
					c.Rep.Find(report.Finding{Property: "C03", Family: "dpkg-sig-files", Shape: "deb:dpkg-sig-files:names-no-member",
						What: fmt.Sprintf("the signed Files list carries digests and a size for %q, the package has no such member (members: %v): the shipped data member has no digest, the digests belong to nothing", f[3], names), Input: in})
					continue
				}
				md, sh := md5.Sum(body), sha1.Sum(body)
				if f[0] != hex.EncodeToString(md[:]) || f[1] != hex.EncodeToString(sh[:]) || f[2] != strconv.Itoa(len(body)) {
					c.Rep.Find(report.Finding{Property: "C03", Family: "dpkg-sig-files", Shape: "deb:dpkg-sig-files:digest-or-size-differs",
						What: fmt.Sprintf("Files line %v does not match member %s as stored (md5 %x sha1 %x size %d)", f, f[3], md, sh, len(body)), Input: in})
				}
			}
			if len(m.Files) != 3 {
				c.Rep.Find(report.Finding{Property: "C03", Family: "dpkg-sig-files", Shape: "deb:dpkg-sig-files:count",
					What: fmt.Sprintf("the signed Files list has %d lines, the package has three signed members", len(m.Files)), Input: in})
			}
		}
	}
	return nil
}
