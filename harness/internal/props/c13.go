package props

import (
	"bytes"
	"fmt"
	"io/fs"
	"os"
	"path/filepath"
	"reflect"
	"sort"
	"strings"
	"time"

	"github.com/goreleaser/nfpm/v2"
	"github.com/goreleaser/nfpm/v2/files"
	"gopkg.in/yaml.v3"
	"verif/harness/internal/report"
	"verif/harness/internal/rng"
	"verif/harness/internal/wire"
)

func init() { Registry["C13"] = runC13 }

type leaf struct {
	Path string
	Kind byte // s l n b
	S    string
	L    []string
	N    int64
	B    bool
}

func (l leaf) enc() string {
	switch l.Kind {
	case 's':
		return fmt.Sprintf("%s s %s", wire.H(l.Path), wire.H(l.S))
	case 'l':
		return fmt.Sprintf("%s l %s", wire.H(l.Path), encBytesList(l.L))
	case 'n':
		return fmt.Sprintf("%s n %d", wire.H(l.Path), l.N)
	default:
		return fmt.Sprintf("%s b %s", wire.H(l.Path), wire.B(l.B))
	}
}

func (l leaf) String() string {
	switch l.Kind {
	case 's':
		return fmt.Sprintf("%s=%q", l.Path, l.S)
	case 'l':
		return fmt.Sprintf("%s=%q", l.Path, l.L)
	case 'n':
		return fmt.Sprintf("%s=%d", l.Path, l.N)
	}
	return fmt.Sprintf("%s=%v", l.Path, l.B)
}

func encLeaves(ls []leaf) string {
	var b strings.Builder
	fmt.Fprintf(&b, "%d", len(ls))
	for _, l := range ls {
		b.WriteString(" " + l.enc())
	}
	return b.String()
}

func showLeaves(ls []leaf) string {
	parts := make([]string, len(ls))
	for i, l := range ls {
		parts[i] = l.String()
	}
	sort.Strings(parts)
	return strings.Join(parts, " ")
}

// dumpLeaves flattens a struct value (exported fields; Contents and funcs skipped).
func dumpLeaves(v reflect.Value, pfx string, out *[]leaf) {
	switch v.Kind() {
	case reflect.Ptr:
		if v.IsNil() {
			if v.Type().Elem().Kind() == reflect.String {
				*out = append(*out, leaf{Path: pfx, Kind: 's'})
			}
			return
		}
		dumpLeaves(v.Elem(), pfx, out)
	case reflect.Struct:
		if v.Type().String() == "time.Time" {
			return
		}
		for i := 0; i < v.NumField(); i++ {
			f := v.Type().Field(i)
			if f.PkgPath != "" || f.Name == "Contents" {
				continue
			}
			p := f.Name
			if pfx != "" {
				p = pfx + "." + f.Name
			}
			if f.Anonymous {
				p = pfx
			}
			dumpLeaves(v.Field(i), p, out)
		}
	case reflect.String:
		*out = append(*out, leaf{Path: pfx, Kind: 's', S: v.String()})
	case reflect.Bool:
		*out = append(*out, leaf{Path: pfx, Kind: 'b', B: v.Bool()})
	case reflect.Int, reflect.Int64, reflect.Int32:
		*out = append(*out, leaf{Path: pfx, Kind: 'n', N: v.Int()})
	case reflect.Uint32, reflect.Uint64, reflect.Uint:
		*out = append(*out, leaf{Path: pfx, Kind: 'n', N: int64(v.Uint())})
	case reflect.Slice:
		if v.Type().Elem().Kind() == reflect.String {
			l := leaf{Path: pfx, Kind: 'l'}
			for i := 0; i < v.Len(); i++ {
				l.L = append(l.L, v.Index(i).String())
			}
			*out = append(*out, l)
		} else if v.Type().Elem().Kind() == reflect.Struct {
			// IPK alternatives: rendered as one list leaf
			l := leaf{Path: pfx, Kind: 'l'}
			for i := 0; i < v.Len(); i++ {
				if a, ok := v.Index(i).Interface().(nfpm.IPKAlternative); ok {
					l.L = append(l.L, fmt.Sprintf("%d:%s:%s", a.Priority, a.LinkName, a.Target))
				} else {
					l.L = append(l.L, fmt.Sprintf("%+v", v.Index(i).Interface()))
				}
			}
			*out = append(*out, l)
		}
	case reflect.Map:
		keys := v.MapKeys()
		sort.Slice(keys, func(i, j int) bool { return keys[i].String() < keys[j].String() })
		for _, k := range keys {
			*out = append(*out, leaf{Path: pfx + ".{" + k.String() + "}", Kind: 's', S: v.MapIndex(k).String()})
		}
	}
}

func leavesOf(o *nfpm.Overridables) []leaf {
	var out []leaf
	dumpLeaves(reflect.ValueOf(o).Elem(), "", &out)
	return out
}

// setLeaf sets the field at Go path `path` of an Overridables to a recognisable non-empty value.
func setLeaf(o *nfpm.Overridables, path string, tag string) bool {
	v := reflect.ValueOf(o).Elem()
	for _, seg := range strings.Split(path, ".") {
		for v.Kind() == reflect.Ptr {
			v = v.Elem()
		}
		v = v.FieldByName(seg)
		if !v.IsValid() {
			return false
		}
	}
	switch v.Kind() {
	case reflect.String:
		v.SetString(tag + ":" + path)
	case reflect.Bool:
		v.SetBool(true)
	case reflect.Uint32:
		v.SetUint(0o27)
	case reflect.Ptr:
		s := tag + ":" + path
		v.Set(reflect.ValueOf(&s))
	case reflect.Slice:
		if v.Type().Elem().Kind() == reflect.String {
			v.Set(reflect.ValueOf([]string{tag + "1:" + path, tag + "2"}))
		} else if v.Type() == reflect.TypeOf([]nfpm.IPKAlternative{}) {
			v.Set(reflect.ValueOf([]nfpm.IPKAlternative{{Priority: len(tag), Target: tag, LinkName: path}}))
		} else {
			return false
		}
	case reflect.Map:
		v.Set(reflect.ValueOf(map[string]string{"K-" + tag: tag + ":" + path, "Shared": tag}))
	default:
		return false
	}
	return true
}

// leafGoPaths lists the settable Go paths of Overridables.
func leafGoPaths() []string {
	var res []string
	var walk func(t reflect.Type, pfx string)
	walk = func(t reflect.Type, pfx string) {
		for i := 0; i < t.NumField(); i++ {
			f := t.Field(i)
			if f.PkgPath != "" || f.Name == "Contents" || f.Type.Kind() == reflect.Func {
				continue
			}
			p := f.Name
			if pfx != "" {
				p = pfx + "." + f.Name
			}
			if f.Type.Kind() == reflect.Struct {
				if f.Anonymous {
					walk(f.Type, pfx)
				} else {
					walk(f.Type, p)
				}
				continue
			}
			if f.Anonymous {
				continue
			}
			res = append(res, p)
		}
	}
	walk(reflect.TypeOf(nfpm.Overridables{}), "")
	return res
}

func contentsSig(cs files.Contents) string {
	var parts []string
	for _, c := range cs {
		parts = append(parts, fmt.Sprintf("%s>%s(%s,%s)", c.Source, c.Destination, c.Type, c.Packager))
	}
	return strings.Join(parts, " ")
}

// overrideCase: one configuration through Get for every format, against model and laws.
func overrideCase(c *Ctx, fam *report.Family, cfg *nfpm.Config, in map[string]any) {
	baseBefore := leavesOf(&cfg.Info.Overridables)
	baseContents := contentsSig(cfg.Contents)
	first := map[string]string{}
	order := append([]string{}, Formats...)
	for round := 0; round < 2; round++ {
		for _, f := range order {
			info, err := cfg.Get(f)
			if err != nil {
				c.Rep.Note("Get(%s): %v", f, err)
				continue
			}
			got := leavesOf(&info.Overridables)
			gotC := contentsSig(info.Contents)
			key := fmt.Sprintf("%v|%s", in, f)
			if round == 0 {
				fam.Eval(key, cfg.Overrides[f] != nil)
				// model: merge of the base as it was before any Get with the block of f
				ov := cfg.Overrides[f]
				var wantLeaves string
				if ov == nil {
					wantLeaves = showLeaves(baseBefore)
				} else {
					a, err := c.D.Ask(fmt.Sprintf("c13merge %s %s", encLeaves(baseBefore), encLeaves(leavesOf(ov))))
					if err != nil {
						c.Rep.Note("driver: %v", err)
						return
					}
					wantLeaves = canonLeavesAnswer(a)
				}
				wantC := baseContents
				if ov != nil {
					src := cfg.Contents
					if len(ov.Contents) > 0 {
						src = ov.Contents
					}
					var keep files.Contents
					for _, x := range src {
						if x.Packager == f || x.Packager == "" {
							keep = append(keep, x)
						}
					}
					wantC = contentsSig(keep)
				}
				in2 := map[string]any{"format": f}
				for k, v := range in {
					in2[k] = v
				}
				if showLeaves(got) != wantLeaves {
					d := firstDiff(showLeaves(got), wantLeaves)
					c.Rep.Disagree(report.Disagreement{Family: fam.Name, What: "Config.Get(" + f + ") effective settings vs model merge", Input: in2, Model: d[1], Impl: d[0]})
					c.Rep.Find(report.Finding{Property: "C13", Family: fam.Name, Shape: "effective-settings-differ-from-merge-law", What: "Get(" + f + "): " + d[0] + " expected " + d[1], Input: in2})
				}
				if gotC != wantC {
					c.Rep.Find(report.Finding{Property: "C13", Family: fam.Name, Shape: "contents-differ-from-merge-law", What: fmt.Sprintf("Get(%s) contents %q expected %q", f, gotC, wantC), Input: in2})
				}
				first[f] = showLeaves(got) + "##" + gotC
			} else if first[f] != showLeaves(got)+"##"+gotC {
				in2 := map[string]any{"format": f, "history": "after Get of every format"}
				for k, v := range in {
					in2[k] = v
				}
				d := firstDiff(showLeaves(got)+"##"+gotC, first[f])
				c.Rep.Find(report.Finding{Property: "C13", Family: fam.Name, Shape: "other-format-block-leaks", What: "Get(" + f + ") changed after Get of the other formats: " + d[0] + " was " + d[1], Input: in2})
			}
		}
		// second round in reverse order
		for i, j := 0, len(order)-1; i < j; i, j = i+1, j-1 {
			order[i], order[j] = order[j], order[i]
		}
	}
	if after := showLeaves(leavesOf(&cfg.Info.Overridables)); after != showLeaves(baseBefore) {
		d := firstDiff(after, showLeaves(baseBefore))
		c.Rep.Find(report.Finding{Property: "C13", Family: fam.Name, Shape: "base-settings-changed-by-get", What: "base settings changed by Get: " + d[0] + " was " + d[1], Input: in})
	}
}

// c13ConfigRoute: the same configuration through a configuration file.
func c13ConfigRoute(c *Ctx, fam *report.Family, mk func() *nfpm.Config, in map[string]any) {
	doc, err := yaml.Marshal(mk())
	if err != nil {
		c.Rep.Note("config-route: marshal: %v", err)
		return
	}
	parsed, perr := nfpm.Parse(bytes.NewReader(doc))
	key := fmt.Sprint(in)
	if perr != nil {
		fam.Eval(key, false)
		fam.Count("parse-error")
		return
	}
	fam.Eval(key, true)
	fam.Count("parsed")
	// what the document states: its plain decoding (leaves without a configuration key, such as the signing
	// passphrases that only the environment supplies, are not in it)
	want := &nfpm.Config{}
	if err := yaml.Unmarshal(doc, want); err != nil {
		c.Rep.Note("config-route: plain decoding: %v", err)
		return
	}
	nfpm.WithDefaults(&want.Info)
	in2 := map[string]any{"document": string(doc)}
	for k, v := range in {
		in2[k] = v
	}
	noPass := func(ls []leaf) []leaf {
		var out []leaf
		for _, l := range ls {
			if !strings.HasSuffix(l.Path, "KeyPassphrase") {
				out = append(out, l)
			}
		}
		return out
	}
	if g, w := showLeaves(noPass(leavesOf(&parsed.Info.Overridables))), showLeaves(noPass(leavesOf(&want.Info.Overridables))); g != w {
		d := firstDiff(g, w)
		c.Rep.Find(report.Finding{Property: "C13", Family: fam.Name, Shape: "config-route:base-settings-differ-from-document", What: "base settings after nfpm.Parse: " + d[0] + "; the document states " + d[1], Input: in2})
	}
	for _, f := range Formats {
		wb, pb := want.Overrides[f], parsed.Overrides[f]
		if (wb == nil) != (pb == nil) {
			c.Rep.Find(report.Finding{Property: "C13", Family: fam.Name, Shape: "config-route:override-block-presence-differs", What: fmt.Sprintf("override block %s: document has one = %v, parsed configuration has one = %v", f, wb != nil, pb != nil), Input: in2})
			continue
		}
		if wb == nil {
			continue
		}
		if g, w := showLeaves(noPass(leavesOf(pb))), showLeaves(noPass(leavesOf(wb))); g != w {
			d := firstDiff(g, w)
			c.Rep.Find(report.Finding{Property: "C13", Family: fam.Name, Shape: "config-route:override-block-differs-from-document", What: "override block " + f + " after nfpm.Parse: " + d[0] + "; the document states " + d[1], Input: in2})
		}
	}
	overrideCase(c, fam, &parsed, in2)
}

// c13TaggedContents: "content entries addressed to a packager never appear in another format's package" – decided on
// the packages: every entry type x every packager tag, once without any override block and once with a block for the
// format being built that sets an unrelated field (Config.Get filters contents itself only in that case).
// c13CLI: the override block of a format reaches the package through the command as well, whether the packager is named
// (-p) or guessed from the target's extension.
func c13CLI(c *Ctx) {
	fam := c.Rep.Family("override-blocks-through-the-command", "exhaustive: one configuration with an override block per format (depends, umask, one extra entry) x 5 formats x {packager named with -p, packager guessed from the target's extension (not archlinux, whose extension the command does not recognise)}: the built `nfpm package` vs nfpm.Parse + Config.Get(format) + WithDefaults + Package in process, byte for byte (mtime fixed); non-trivial = always")
	fam.Exhaustive = true
	if c.Repo == "" {
		return
	}
	root := filepath.Join(c.Tmp, "c13cli")
	_ = os.MkdirAll(root, 0o755)
	bin, err := BuildNfpmBinary(c.Repo, root)
	if err != nil {
		c.Rep.Note("override-blocks-through-the-command: %v", err)
		return
	}
	tool := filepath.Join(root, "tool.sh")
	_ = os.WriteFile(tool, []byte("#!/bin/sh\necho tool\n"), 0o755)
	_ = os.Chtimes(tool, time.Unix(1600000000, 0), time.Unix(1600000000, 0))
	// a small tree addressed to one packager, and a file for every packager: half of the override blocks restate the
	// contents, the other half only change the umask and the dependencies – the base contents then get the block's umask
	treeDir := filepath.Join(root, "treedir")
	_ = os.MkdirAll(filepath.Join(treeDir, "sub"), 0o755)
	for _, f := range []string{"a.txt", "sub/b.txt"} {
		_ = os.WriteFile(filepath.Join(treeDir, f), []byte(f), 0o666)
		_ = os.Chmod(filepath.Join(treeDir, f), 0o666)
	}
	for _, f := range []string{"sub/b.txt", "sub", "a.txt", ""} {
		_ = os.Chtimes(filepath.Join(treeDir, f), time.Unix(1600000100, 0), time.Unix(1600000100, 0))
	}
	var y strings.Builder
	y.WriteString("name: verifpkg\narch: amd64\nplatform: linux\nversion: 1.2.3\nmaintainer: Verif <verif@example.com>\ndescription: override blocks through the command\nmtime: 2023-11-14T22:13:20Z\ndepends: [base-dependency]\nrpm:\n  buildhost: buildhost.example\ncontents:\n- src: " + tool + "\n  dst: /usr/bin/tool\n- src: " + treeDir + "\n  dst: /opt/only-rpm\n  type: tree\n  packager: rpm\n- src: " + filepath.Join(treeDir, "a.txt") + "\n  dst: /usr/share/verifpkg/a.txt\noverrides:\n")
	for i, f := range Formats {
		fmt.Fprintf(&y, "  %s:\n    depends: [only-%s]\n    umask: 0o077\n", f, f)
		if f == "deb" {
			y.WriteString("    deb:\n      arch: armhf\n")
		}
		if f == "rpm" {
			y.WriteString("    rpm:\n      arch: armv7hl\n")
		}
		if i%2 == 1 {
			fmt.Fprintf(&y, "    contents:\n    - src: %s\n      dst: /usr/bin/tool\n    - src: %s\n      dst: /usr/bin/tool-%s\n", tool, tool, f)
		}
	}
	for i, f := range Formats {
		cfg, perr := nfpm.Parse(strings.NewReader(y.String()))
		if perr != nil {
			c.Rep.Note("override-blocks-through-the-command: document does not parse: %v", perr)
			return
		}
		info, gerr := cfg.Get(f)
		if gerr != nil {
			continue
		}
		want, berr := BuildPkg(f, nfpm.WithDefaults(info))
		if berr != nil {
			c.Rep.Note("override-blocks-through-the-command: %s does not build in process: %v", f, berr)
			continue
		}
		{
			// the target is a directory: the package is written under the conventional name of the EFFECTIVE settings
			// (the override block of the format included)
			dir := filepath.Join(root, fmt.Sprintf("%s-dirtarget-%d", f, i))
			_ = os.MkdirAll(filepath.Join(dir, "out"), 0o755)
			_ = os.WriteFile(filepath.Join(dir, "nfpm.yaml"), []byte(y.String()), 0o644)
			wantName := ""
			if cfg2, perr := nfpm.Parse(strings.NewReader(y.String())); perr == nil {
				if i2, gerr := cfg2.Get(f); gerr == nil {
					if pk, kerr := nfpm.Get(f); kerr == nil {
						wantName = pk.ConventionalFileName(nfpm.WithDefaults(i2))
					}
				}
			}
			code, out := runNfpm(bin, dir, "-p", f, "-t", "out")
			fam.Eval(f+"|directory-target", true)
			in := map[string]any{"format": f, "config": y.String(), "args": []string{"package", "-p", f, "-t", "out"}}
			ents, _ := os.ReadDir(filepath.Join(dir, "out"))
			var have []string
			for _, e := range ents {
				have = append(have, e.Name())
			}
			if code != 0 {
				c.Rep.Find(report.Finding{Property: "C13", Family: fam.Name, Shape: "command:directory-target:fails",
					What: fmt.Sprintf("`nfpm package -p %s -t out` exits %d: %s", f, code, cliCause(out)), Input: in})
			} else if wantName != "" && (len(have) != 1 || have[0] != wantName) {
				c.Rep.Find(report.Finding{Property: "C13", Family: fam.Name, Shape: "command:directory-target:file-name-differs-from-effective-settings",
					What: fmt.Sprintf("`nfpm package -p %s -t out` wrote %v; the conventional file name of Config.Get(%q) is %q (the override block of the format is part of the settings the name is made of)", f, have, f, wantName), Input: in})
			} else if wantName != "" {
				if got, rerr := os.ReadFile(filepath.Join(dir, "out", wantName)); rerr == nil && !bytes.Equal(got, want) {
					c.Rep.Find(report.Finding{Property: "C13", Family: fam.Name, Shape: "command:directory-target:package-differs-from-effective-settings",
						What: fmt.Sprintf("the %s package written into a directory target differs from the one built in process: %s", f, diffWhat(want, got)), Input: in})
				}
			}
		}
		for _, how := range []string{"named", "guessed"} {
			if how == "guessed" && f == "archlinux" {
				continue // the command guesses from the last extension: ".pkg.tar.zst" names no packager (C15's decision table)
			}
			dir := filepath.Join(root, fmt.Sprintf("%s-%s-%d", f, how, i))
			_ = os.MkdirAll(filepath.Join(dir, "out"), 0o755)
			_ = os.WriteFile(filepath.Join(dir, "nfpm.yaml"), []byte(y.String()), 0o644)
			rel := filepath.Join("out", "pkg"+cliExt[f])
			args := []string{"-t", rel}
			if how == "named" {
				args = append([]string{"-p", f}, args...)
			}
			code, out := runNfpm(bin, dir, args...)
			fam.Eval(f+"|"+how, true)
			in := map[string]any{"format": f, "packager": how, "config": y.String(), "args": append([]string{"package"}, args...)}
			got, rerr := os.ReadFile(filepath.Join(dir, rel))
			switch {
			case code != 0 || rerr != nil:
				c.Rep.Find(report.Finding{Property: "C13", Family: fam.Name, Shape: "command:" + how + ":fails",
					What: fmt.Sprintf("`nfpm package %s` exits %d (%v): %s", strings.Join(args, " "), code, rerr, cliCause(out)), Input: in})
			case !bytes.Equal(got, want):
				c.Rep.Find(report.Finding{Property: "C13", Family: fam.Name, Shape: "command:" + how + ":package-differs-from-effective-settings",
					What: fmt.Sprintf("the %s package `nfpm package %s` writes differs from the one built in process from Config.Get(%q) of the same configuration (the override block of the format sets depends, umask and contents): %s", f, strings.Join(args, " "), f, diffWhat(want, got)), Input: in})
			}
		}
	}
}

// c13EmptyBlocks: an override block that sets nothing (`deb:` with nothing under it, `deb: {}`, or a nil block in a
// configuration built in Go) overrides nothing: the effective settings are the base settings.
func c13EmptyBlocks(c *Ctx) {
	fam := c.Rep.Family("empty-override-blocks", "exhaustive: 5 formats x {block that is YAML null, block that is an empty mapping, nil block in a Config built in Go}: nfpm.Parse / Config.Get must neither fail nor crash, and every overridable leaf of the effective settings equals the base; non-trivial = always")
	fam.Exhaustive = true
	base := "name: verifpkg\narch: amd64\nversion: 1.2.3\nmaintainer: Verif <verif@example.com>\ndescription: d\ndepends: [base-dependency]\numask: 0o027\n"
	try := func(what, f string, get func() (*nfpm.Info, *nfpm.Info, error)) {
		fam.Eval(what+"|"+f, true)
		in := map[string]any{"format": f, "case": what}
		var got, want *nfpm.Info
		var err error
		func() {
			defer func() {
				if r := recover(); r != nil {
					err = fmt.Errorf("panic: %v", r)
				}
			}()
			got, want, err = get()
		}()
		if err != nil {
			c.Rep.Find(report.Finding{Property: "C13", Family: fam.Name, Shape: "empty-block:" + what + ":fails",
				What: fmt.Sprintf("an override block for %s that sets nothing (%s) makes the configuration unusable: %v", f, what, err), Input: in})
			return
		}
		if !reflect.DeepEqual(got.Depends, want.Depends) || got.Umask != want.Umask || !reflect.DeepEqual(got.Scripts, want.Scripts) {
			c.Rep.Find(report.Finding{Property: "C13", Family: fam.Name, Shape: "empty-block:" + what + ":settings-differ-from-base",
				What: fmt.Sprintf("an override block for %s that sets nothing (%s) changes the effective settings: depends %v umask %o, base %v %o", f, what, got.Depends, got.Umask, want.Depends, want.Umask), Input: in})
		}
	}
	for _, f := range Formats {
		f := f
		for what, block := range map[string]string{"yaml-null": "overrides:\n  " + f + ":\n", "yaml-empty-mapping": "overrides:\n  " + f + ": {}\n"} {
			doc := base + block
			try(what, f, func() (*nfpm.Info, *nfpm.Info, error) {
				cfg, err := nfpm.Parse(strings.NewReader(doc))
				if err != nil {
					return nil, nil, err
				}
				ref, err := nfpm.Parse(strings.NewReader(base))
				if err != nil {
					return nil, nil, err
				}
				got, err := cfg.Get(f)
				if err != nil {
					return nil, nil, err
				}
				want, err := ref.Get(f)
				return got, want, err
			})
		}
		try("nil-block-in-go", f, func() (*nfpm.Info, *nfpm.Info, error) {
			mk := func(ov map[string]*nfpm.Overridables) *nfpm.Config {
				return &nfpm.Config{Info: nfpm.Info{Name: "p", Arch: "amd64", Version: "1.0.0", Overridables: nfpm.Overridables{Depends: []string{"base-dependency"}, Umask: 0o027}}, Overrides: ov}
			}
			got, err := mk(map[string]*nfpm.Overridables{f: nil}).Get(f)
			if err != nil {
				return nil, nil, err
			}
			want, err := mk(nil).Get(f)
			return got, want, err
		})
	}
}

func c13TaggedContents(c *Ctx) error {
	fam := c.Rep.Family("tagged-contents-in-packages", "exhaustive: every entry type (file, config, config|noreplace, dir, symlink, tree, ghost, doc, licence, license, readme) x every packager tag (none + 5 formats) as one entry of a YAML configuration x {no override block, an override block for the built format that only sets depends} x 5 formats: nfpm.Parse, Config.Get(format), Package, independent decoding; the entry is in the package iff it is addressed to that format (or to all) and its type exists there; non-trivial = the entry is tagged")
	fam.Exhaustive = true
	tree, err := MkTree(filepath.Join(c.Tmp, "c13src"), 0)
	if err != nil {
		return err
	}
	rpmOnly := map[string]bool{"ghost": true, "doc": true, "licence": true, "license": true, "readme": true}
	types := []string{"", "config", "config|noreplace", "dir", "symlink", "tree", "ghost", "doc", "licence", "license", "readme"}
	for _, ty := range types {
		for _, tg := range append([]string{""}, Formats...) {
			for _, wb := range []int{0, 1, 2, 3} {
				// 2, 3: the entry is also marked `expand: true` (its paths go through the environment expansion at parse time)
				withBlock, expand := wb%2 == 1, wb >= 2
				if expand && tg == "" {
					continue
				}
				var e strings.Builder
				switch ty {
				case "symlink":
					e.WriteString("- src: /usr/bin/plain\n  dst: /etc/app/entry\n  type: symlink\n")
				case "dir", "ghost":
					fmt.Fprintf(&e, "- dst: /etc/app/entry\n  type: %s\n", ty)
				case "tree":
					fmt.Fprintf(&e, "- src: %s\n  dst: /etc/app/entry\n  type: tree\n", filepath.Join(tree.Root, "tree/sub"))
				case "":
					fmt.Fprintf(&e, "- src: %s\n  dst: /etc/app/entry\n", filepath.Join(tree.Root, "etc/app.conf"))
				default:
					fmt.Fprintf(&e, "- src: %s\n  dst: /etc/app/entry\n  type: %q\n", filepath.Join(tree.Root, "etc/app.conf"), ty)
				}
				if tg != "" {
					fmt.Fprintf(&e, "  packager: %s\n", tg)
				}
				if expand {
					e.WriteString("  expand: true\n")
				}
				for _, f := range Formats {
					doc := "name: verifpkg\narch: amd64\nplatform: linux\nversion: 1.2.3\nmaintainer: Verif <verif@example.com>\ndescription: verification package\n" +
						"mtime: 2023-11-14T22:13:20Z\ncontents:\n- src: " + filepath.Join(tree.Root, "bin/tool") + "\n  dst: /usr/bin/plain\n" + e.String()
					if withBlock {
						doc += "overrides:\n  " + f + ":\n    depends: [only-" + f + "]\n"
					}
					in := map[string]any{"entry_type": ty, "entry_packager": tg, "format": f, "override_block": withBlock, "expand": expand, "document": doc}
					key := fmt.Sprintf("%s|%s|%v|%v|%s", ty, tg, withBlock, expand, f)
					cfg, perr := nfpm.Parse(strings.NewReader(doc))
					if perr != nil {
						fam.Eval(key, false)
						fam.Count("parse-error")
						continue
					}
					info, gerr := cfg.Get(f)
					if gerr != nil {
						fam.Eval(key, false)
						fam.Count("get-error")
						continue
					}
					data, berr := BuildPkg(f, nfpm.WithDefaults(info))
					if berr != nil {
						fam.Eval(key, false)
						fam.Count("build-error")
						continue
					}
					dec, derr := DecodePkg(f, data)
					if derr != nil {
						c.Rep.Note("tagged-contents: decode %s: %v", f, derr)
						continue
					}
					fam.Eval(key, tg != "")
					present := false
					for _, m := range dec.Members {
						n := "/" + strings.TrimLeft(strings.TrimPrefix(m.Name, "."), "/")
						if n == "/etc/app/entry" || n == "/etc/app/entry/" || strings.HasPrefix(n, "/etc/app/entry/") {
							present = true
						}
					}
					want := (tg == "" || tg == f) && !(rpmOnly[ty] && f != "rpm")
					fam.Count(fmt.Sprintf("%s:present=%v", f, present))
					if present != want {
						c.Rep.Find(report.Finding{Property: "C13", Family: "tagged-contents-in-packages", Shape: fmt.Sprintf("%s:entry-presence-differs:want=%v", f, want),
							What:  fmt.Sprintf("entry of type %q addressed to %q: in the %s package = %v, expected %v", ty, tg, f, present, want),
							Input: in})
					}
				}
			}
		}
	}
	return nil
}

func canonLeavesAnswer(a string) string {
	toks := strings.Fields(a)
	var parts []string
	i := 1
	for i < len(toks) {
		p, _ := wire.UnH(toks[i])
		switch toks[i+1] {
		case "s":
			s, _ := wire.UnH(toks[i+2])
			parts = append(parts, fmt.Sprintf("%s=%q", p, s))
			i += 3
		case "l":
			var n int
			fmt.Sscanf(toks[i+2], "%d", &n)
			var l []string
			for j := 0; j < n; j++ {
				s, _ := wire.UnH(toks[i+3+j])
				l = append(l, s)
			}
			parts = append(parts, fmt.Sprintf("%s=%q", p, l))
			i += 3 + n
		case "n":
			parts = append(parts, fmt.Sprintf("%s=%s", p, toks[i+2]))
			i += 3
		case "b":
			parts = append(parts, fmt.Sprintf("%s=%v", p, toks[i+2] == "1"))
			i += 3
		default:
			return "unparseable:" + a
		}
	}
	sort.Strings(parts)
	return strings.Join(parts, " ")
}

func firstDiff(a, b string) [2]string {
	as, bs := strings.Split(a, " "), strings.Split(b, " ")
	am, bm := map[string]bool{}, map[string]bool{}
	for _, x := range as {
		am[x] = true
	}
	for _, x := range bs {
		bm[x] = true
	}
	var da, db []string
	for _, x := range as {
		if !bm[x] {
			da = append(da, x)
		}
	}
	for _, x := range bs {
		if !am[x] {
			db = append(db, x)
		}
	}
	return [2]string{strings.Join(da, " "), strings.Join(db, " ")}
}

func runC13(c *Ctx) error {
	paths := leafGoPaths()
	fam := c.Rep.Family("override-matrix", fmt.Sprintf("exhaustive: every overridable leaf (%d Go field paths of nfpm.Overridables incl. nested format blocks, scripts, umask, maps, *string) x every format block x {base+override set, only override, only base}: Config.Get for all five formats twice (forward and reverse order) compared with the model merge of the base as it was before any Get; base settings dumped before/after; non-trivial = the format has an override block", len(paths)))
	fam.Exhaustive = true
	famY := c.Rep.Family("override-matrix-config-route", "exhaustive: the configurations of override-matrix written as a YAML document (yaml.v3 over nfpm.Config's own tags) and read back with nfpm.Parse: every leaf of the base and of every override block of the parsed configuration vs the leaf the document states (after nfpm.WithDefaults), then the merge law on the parsed configuration; non-trivial = the document parses")
	famY.Exhaustive = true
	for _, p := range paths {
		for _, f := range Formats {
			for variant := 0; variant < 3; variant++ {
				p, f, variant := p, f, variant
				mk := func() *nfpm.Config {
					cfg := &nfpm.Config{Info: nfpm.Info{Name: "p", Arch: "amd64", Version: "1.0.0"}, Overrides: map[string]*nfpm.Overridables{}}
					ov := &nfpm.Overridables{}
					if variant != 1 {
						if !setLeaf(&cfg.Info.Overridables, p, "base") {
							return nil
						}
					}
					if variant != 2 {
						setLeaf(ov, p, "ov-"+f)
					}
					cfg.Overrides[f] = ov
					return cfg
				}
				cfg := mk()
				if cfg == nil {
					continue
				}
				in := map[string]any{"leaf": p, "block": f, "variant": []string{"base+override", "override-only", "base-only"}[variant]}
				overrideCase(c, fam, cfg, in)
				c13ConfigRoute(c, famY, mk, in)
			}
		}
	}
	fam.Sample(map[string]any{"leaf": "Deb.Signature.KeyID", "block": "rpm", "variant": "base+override"})
	// random combinations
	fam2 := c.Rep.Family("override-random", "random configurations: random subsets of leaves set in the base and in 0..3 override blocks (incl. blocks of several formats at once), contents with packager tags in base and blocks, umask; same checks; non-trivial = at least one block")
	r := c.R.Fork("c13")
	n := c.N(150, 4000)
	for i := 0; i < n; i++ {
		cfg := &nfpm.Config{Info: nfpm.Info{Name: "p", Arch: "amd64", Version: "1.0.0"}, Overrides: map[string]*nfpm.Overridables{}}
		for _, p := range paths {
			if r.Chance(1, 4) {
				setLeaf(&cfg.Info.Overridables, p, "base")
			}
		}
		mk := func(tag string) files.Contents {
			var cs files.Contents
			for j := 0; j < r.Intn(4); j++ {
				cs = append(cs, &files.Content{Source: "s" + tag, Destination: fmt.Sprintf("/d/%s%d", tag, j), Packager: rng.Pick(r, append([]string{"", ""}, Formats...)),
					FileInfo: &files.ContentFileInfo{Mode: fs.FileMode(0o644)}})
			}
			return cs
		}
		cfg.Contents = mk("b")
		nb := r.Intn(4)
		var blocks []string
		for j := 0; j < nb; j++ {
			f := rng.Pick(r, Formats)
			ov := &nfpm.Overridables{}
			for _, p := range paths {
				if r.Chance(1, 5) {
					setLeaf(ov, p, "ov-"+f)
				}
			}
			if r.Bool() {
				ov.Contents = mk(f)
			}
			cfg.Overrides[f] = ov
			blocks = append(blocks, f)
		}
		overrideCase(c, fam2, cfg, map[string]any{"case": i, "blocks": blocks})
	}
	// ---- content entries addressed to a packager, in the packages themselves
	if err := c13TaggedContents(c); err != nil {
		return err
	}
	c13CLI(c)
	c13EmptyBlocks(c)
	// validation rejects override blocks for names that are not registered packagers – also names that differ from a
	// registered one only by letter case or blanks (Config.Get would never apply such a block)
	famV := c.Rep.Family("override-block-names", "exhaustive: override blocks keyed by names that are not registered packagers (another word, each registered name in upper case, capitalised, with a trailing blank): Config.Validate and nfpm.Parse must reject them, nfpm.Get(name) must not hand out a packager for them; and for every registered name they must accept; non-trivial = always")
	famV.Exhaustive = true
	bad := []string{"nosuchformat", "tgz"}
	for _, f := range Formats {
		bad = append(bad, strings.ToUpper(f), strings.ToUpper(f[:1])+f[1:], f+" ")
	}
	for _, name := range bad {
		famV.Eval("bad|"+name, true)
		cfg := &nfpm.Config{Info: nfpm.Info{Name: "p", Arch: "amd64", Version: "1.0.0"}, Overrides: map[string]*nfpm.Overridables{name: {}}}
		if err := cfg.Validate(); err == nil {
			c.Rep.Find(report.Finding{Property: "C13", Family: "override-block-names", Shape: "validate-accepts-unknown-override", What: fmt.Sprintf("Validate accepted an override block for %q, which is not a registered packager", name), Input: map[string]any{"overrides": name}})
		}
		if _, err := nfpm.Get(name); err == nil {
			c.Rep.Find(report.Finding{Property: "C13", Family: "override-block-names", Shape: "registry-hands-out-packager-for-unregistered-name", What: fmt.Sprintf("nfpm.Get(%q) returns a packager; Config.Get(%q) would package without the override block of the registered name", name, name), Input: map[string]any{"format": name}})
		}
		// … and the same name with a block that has nothing under it (`debb:` followed by nothing decodes to a nil block):
		// the name is what is validated, not the block's contents
		famV.Eval("bad-nil|"+name, true)
		cfgNil := &nfpm.Config{Info: nfpm.Info{Name: "p", Arch: "amd64", Version: "1.0.0"}, Overrides: map[string]*nfpm.Overridables{name: nil}}
		if err := cfgNil.Validate(); err == nil {
			c.Rep.Find(report.Finding{Property: "C13", Family: "override-block-names", Shape: "validate-accepts-unknown-override:empty-block", What: fmt.Sprintf("Validate accepted an override block without settings for %q, which is not a registered packager", name), Input: map[string]any{"overrides": name, "block": "nil"}})
		}
		for _, body := range []string{"    depends: [x]\n", ""} {
			doc := fmt.Sprintf("name: p\narch: amd64\nversion: 1.0.0\noverrides:\n  %q:\n%s", name, body)
			var err error
			func() {
				// a crash inside the parser is an outcome to report with its input (family empty-block does), not a reason
				// to lose the run
				defer func() {
					if r := recover(); r != nil {
						err = fmt.Errorf("panic: %v", r)
					}
				}()
				cfgP, perr := nfpm.Parse(strings.NewReader(doc))
				if err = perr; err == nil {
					err = cfgP.Validate()
				}
			}()
			if err == nil {
				c.Rep.Find(report.Finding{Property: "C13", Family: "override-block-names", Shape: "parse-and-validate-accept-unknown-override", What: fmt.Sprintf("nfpm.Parse and Config.Validate accepted an override block for %q", name), Input: map[string]any{"document": doc}})
			}
		}
	}
	for _, f := range Formats {
		famV.Eval("good|"+f, true)
		cfg := &nfpm.Config{Info: nfpm.Info{Name: "p", Arch: "amd64", Version: "1.0.0"}, Overrides: map[string]*nfpm.Overridables{f: {}}}
		if err := cfg.Validate(); err != nil {
			c.Rep.Find(report.Finding{Property: "C13", Family: "override-block-names", Shape: "validate-rejects-registered-override", What: fmt.Sprintf("Validate rejects the override block of the registered packager %s: %v", f, err), Input: map[string]any{"overrides": f}})
		}
	}
	c13GetResultsAreIndependent(c)
	c13UmaskInPackages(c)
	return nil
}

// c13GetResultsAreIndependent: what Config.Get hands out belongs to the caller. Packagers complete and rewrite the
// settings they are given (defaults, architecture names, prepared contents); a caller may too. Whatever is done to one
// result, the next Get – of the same or of another format, with or without an override block – yields the effective
// settings of the configuration.
func c13GetResultsAreIndependent(c *Ctx) {
	fam := c.Rep.Family("get-results-are-independent", "exhaustive: a configuration with override blocks for two of the five formats; for every ordered pair of formats (25): Get(first), the result rewritten the way a packager does (name, architecture, priority, maintainer, dependencies appended, contents replaced) and then packaged, Get(second): every overridable leaf and the identity fields of the second result against Get(second) of an untouched copy of the configuration; the two results must not be the same object; non-trivial = always")
	fam.Exhaustive = true
	tree, err := MkTree(filepath.Join(c.Tmp, "c13indep"), 0)
	if err != nil {
		c.Rep.Note("get-results-are-independent: %v", err)
		return
	}
	mk := func() *nfpm.Config {
		s := &PkgSpec{Raw: []wire.Content{{Src: filepath.Join(tree.Root, "bin/tool"), Dst: "/usr/bin/tool"}, {Src: filepath.Join(tree.Root, "etc/app.conf"), Dst: "/etc/app/rpm.conf", Type: "config", Packager: "rpm"}}, Umask: 0o022, MTime: 1700000000}
		info := s.Info()
		info.Depends = []string{"base-dep"}
		return &nfpm.Config{Info: *info, Overrides: map[string]*nfpm.Overridables{"apk": {Depends: []string{"only-apk"}}, "ipk": {Depends: []string{"only-ipk"}}}}
	}
	view := func(i *nfpm.Info) string {
		var b strings.Builder
		fmt.Fprintf(&b, "name=%q arch=%q priority=%q maintainer=%q version=%q|", i.Name, i.Arch, i.Priority, i.Maintainer, i.Version)
		for _, l := range leavesOf(&i.Overridables) {
			fmt.Fprintf(&b, "%v;", l)
		}
		for _, ct := range i.Contents {
			fmt.Fprintf(&b, "[%s->%s %s %s]", ct.Source, ct.Destination, ct.Type, ct.Packager)
		}
		return b.String()
	}
	for _, f1 := range Formats {
		for _, f2 := range Formats {
			cfg, clean := mk(), mk()
			a, err := cfg.Get(f1)
			if err != nil {
				continue
			}
			a.Name, a.Arch, a.Priority, a.Maintainer = "renamed-by-caller", "x86_64", "optional", "Someone <else@example.com>"
			a.Depends = append(a.Depends, "added-by-caller")
			_, _ = BuildPkg(f1, nfpm.WithDefaults(a))
			a.Contents = nil
			b, err2 := cfg.Get(f2)
			want, err3 := clean.Get(f2)
			fam.Eval(f1+"|"+f2, true)
			if err2 != nil || err3 != nil {
				continue
			}
			in := map[string]any{"first": f1, "second": f2, "override_blocks": []string{"apk", "ipk"}}
			if a == b {
				c.Rep.Find(report.Finding{Property: "C13", Family: "get-results-are-independent", Shape: "get-hands-out-one-object-twice",
					What: fmt.Sprintf("Config.Get(%q) and Config.Get(%q) return the same *Info: the settings of one packaging are the other's", f1, f2), Input: in})
				continue
			}
			if view(b) != view(want) {
				c.Rep.Find(report.Finding{Property: "C13", Family: "get-results-are-independent", Shape: "effective-settings-depend-on-an-earlier-result",
					What: fmt.Sprintf("Config.Get(%q) after the result of Get(%q) was completed and packaged: %s; from an untouched configuration: %s", f2, f1, view(b), view(want)), Input: in})
			}
		}
	}
}

// c13UmaskInPackages: `umask` is an overridable setting; the mode of a file that takes it from its source is the source's
// mode minus the umask in force for THAT format – whichever format was packaged before in the same process.
func c13UmaskInPackages(c *Ctx) {
	fam := c.Rep.Family("override-umask-in-packages", "exhaustive: base umask 022, override blocks with umask 077 (rpm) and 027 (apk), a source file of mode 0777 and a tree with a 0666 file; the five formats packaged from one configuration in four orders (and Config.Validate first in two of them): the mode of the file inside every package = source mode minus the umask of that format; non-trivial = always")
	fam.Exhaustive = true
	dir := filepath.Join(c.Tmp, "c13umask")
	_ = os.MkdirAll(filepath.Join(dir, "t"), 0o755)
	wide := filepath.Join(dir, "wide.sh")
	_ = os.WriteFile(wide, []byte("#!/bin/sh\n"), 0o777)
	_ = os.Chmod(wide, 0o777)
	inTree := filepath.Join(dir, "t", "data.bin")
	_ = os.WriteFile(inTree, []byte("data"), 0o666)
	_ = os.Chmod(inTree, 0o666)
	for _, p := range []string{wide, inTree, filepath.Join(dir, "t")} {
		_ = os.Chtimes(p, time.Unix(1600000200, 0), time.Unix(1600000200, 0))
	}
	um := map[string]uint32{"deb": 0o022, "rpm": 0o077, "apk": 0o027, "ipk": 0o022, "archlinux": 0o022}
	orders := [][]string{{"rpm", "deb", "apk", "ipk", "archlinux"}, {"deb", "rpm", "ipk", "apk", "archlinux"}, {"apk", "archlinux", "deb", "rpm", "ipk"}, {"ipk", "apk", "rpm", "deb", "archlinux"}}
	for oi, order := range orders {
		s := &PkgSpec{Raw: []wire.Content{{Src: wide, Dst: "/usr/bin/wide.sh"}, {Src: filepath.Join(dir, "t"), Dst: "/opt/t", Type: "tree"}}, Umask: 0o022, MTime: 1700000000}
		cfg := &nfpm.Config{Info: *s.Info(), Overrides: map[string]*nfpm.Overridables{"rpm": {Umask: 0o077}, "apk": {Umask: 0o027}}}
		if oi%2 == 1 {
			_ = cfg.Validate()
		}
		for step, f := range order {
			info, err := cfg.Get(f)
			if err != nil {
				continue
			}
			data, err := BuildPkg(f, nfpm.WithDefaults(info))
			fam.Eval(fmt.Sprintf("%d|%d|%s", oi, step, f), err == nil)
			if err != nil {
				continue
			}
			dec, err := DecodePkg(f, data)
			if err != nil {
				continue
			}
			for _, m := range dec.Members {
				n := "/" + strings.TrimLeft(strings.TrimPrefix(m.Name, "."), "/")
				var src uint32
				switch n {
				case "/usr/bin/wide.sh":
					src = 0o777
				case "/opt/t/data.bin":
					src = 0o666
				default:
					continue
				}
				if want := uint64(src &^ um[f]); uint64(m.Mode)&0o7777 != want {
					c.Rep.Find(report.Finding{Property: "C13", Family: "override-umask-in-packages", Shape: f + ":mode-not-source-minus-the-umask-of-the-format",
						What:  fmt.Sprintf("%s in the %s package (step %d of %v, validate first: %v) has mode %o; its source has %o and the umask in force for %s is %o: expected %o", n, f, step+1, order, oi%2 == 1, m.Mode&0o7777, src, f, um[f], want),
						Input: map[string]any{"order": order, "step": step + 1, "format": f, "base_umask": "022", "overrides": "rpm: umask 077, apk: umask 027"}})
				}
			}
		}
	}
}
