package props

import (
	"os"
	"path/filepath"
	"time"
)

// SrcTree is a materialised source tree used by several properties.
type SrcTree struct {
	Root  string
	Files []string // regular files (absolute)
	Dirs  []string
	Links []string
}

type treeSpec struct {
	rel   string
	body  string
	mode  os.FileMode
	mtime int64
	link  string // non-empty: symlink target
	dir   bool
}

var baseTree = []treeSpec{
	{rel: "bin", dir: true, mode: 0o755, mtime: 1600000000},
	{rel: "bin/tool", body: "#!/bin/sh\necho tool\n", mode: 0o755, mtime: 1600000100},
	{rel: "bin/suid", body: "suid-binary", mode: 0o755, mtime: 1600000150},
	{rel: "etc", dir: true, mode: 0o755, mtime: 1600000200},
	{rel: "etc/app.conf", body: "key=value\n", mode: 0o644, mtime: 1600000300},
	{rel: "etc/conf.d", dir: true, mode: 0o750, mtime: 1600000400},
	{rel: "etc/conf.d/a.conf", body: "a=1\n", mode: 0o600, mtime: 1600000500},
	{rel: "etc/conf.d/b.conf", body: "b=22\n", mode: 0o640, mtime: 1600000600},
	{rel: "etc/conf.d/deep", dir: true, mode: 0o755, mtime: 1600000650},
	{rel: "etc/conf.d/deep/c.conf", body: "c=333\n", mode: 0o644, mtime: 1600000660},
	{rel: "share", dir: true, mode: 0o755, mtime: 1600000700},
	{rel: "share/doc", dir: true, mode: 0o755, mtime: 1600000800},
	{rel: "share/doc/README", body: "read me\n", mode: 0o444, mtime: 1600000900},
	{rel: "share/doc/LICENSE", body: "MIT\n", mode: 0o644, mtime: 1600000950},
	{rel: "share/empty", body: "", mode: 0o644, mtime: 1600001000},
	{rel: "with space", dir: true, mode: 0o755, mtime: 1600001100},
	{rel: "with space/file name.txt", body: "spaces\n", mode: 0o664, mtime: 1600001200},
	{rel: "meta[1]", dir: true, mode: 0o755, mtime: 1600001300},
	{rel: "meta[1]/x{y}.txt", body: "braces\n", mode: 0o644, mtime: 1600001400},
	{rel: "meta[1]/star*.txt", body: "star\n", mode: 0o644, mtime: 1600001500},
	{rel: "links", dir: true, mode: 0o755, mtime: 1600001600},
	{rel: "links/ln", link: "../bin/tool"},
	{rel: "links/abs", link: "/usr/bin/env"},
	{rel: "tree", dir: true, mode: 0o755, mtime: 1600001700},
	{rel: "tree/top.txt", body: "top\n", mode: 0o644, mtime: 1600001800},
	{rel: "tree/lnk", link: "top.txt"},
	{rel: "tree/sub", dir: true, mode: 0o700, mtime: 1600001900},
	{rel: "tree/sub/dir", dir: true, mode: 0o755, mtime: 1600002000},
	{rel: "tree/sub/dir/leaf", body: "leaf-content\n", mode: 0o640, mtime: 1600002100},
	{rel: "tree/emptydir", dir: true, mode: 0o755, mtime: 1600002200},
	{rel: "tree/usr", dir: true, mode: 0o755, mtime: 1600002250},
	{rel: "tree/usr/x", body: "x", mode: 0o644, mtime: 1600002260},
	// a file inside the tree whose mode has bits every common umask strips, and links whose targets are not in
	// lexically clean form (the literal target must be preserved)
	{rel: "tree/sub/data.db", body: "db-bytes", mode: 0o666, mtime: 1600002270},
	{rel: "tree/dotlnk", link: "./top.txt"},
	{rel: "links/unclean", link: "../bin/../bin/tool"},
	// sibling directories one of whose names is a string prefix of the other (glob destination mapping works on
	// the longest common *string* prefix of the matches)
	{rel: "lib", dir: true, mode: 0o755, mtime: 1600002300},
	{rel: "lib/a.so", body: "lib-a", mode: 0o644, mtime: 1600002310},
	{rel: "lib64", dir: true, mode: 0o755, mtime: 1600002320},
	{rel: "lib64/b.so", body: "lib64-b", mode: 0o644, mtime: 1600002330},
	// set-user-ID, set-group-ID and sticky bits on the build host: a source whose mode is not declared keeps them
	// ("otherwise source mode minus umask"); io/fs reports them as ModeSetuid, ModeSetgid and ModeSticky, not 04000,
	// 02000 and 01000
	{rel: "special", dir: true, mode: 0o755, mtime: 1600002400},
	{rel: "special/suid", body: "suid-on-disk", mode: os.ModeSetuid | 0o755, mtime: 1600002410},
	{rel: "special/sgid", body: "sgid-on-disk", mode: os.ModeSetgid | 0o755, mtime: 1600002420},
	{rel: "special/sticky", body: "sticky-on-disk", mode: os.ModeSticky | 0o644, mtime: 1600002430},
	{rel: "tree/spool", dir: true, mode: os.ModeSticky | 0o777, mtime: 1600002440},
	{rel: "tree/shared", dir: true, mode: os.ModeSetgid | 0o775, mtime: 1600002450},
	{rel: "tree/shared/run", body: "run-as-owner", mode: os.ModeSetuid | os.ModeSetgid | 0o711, mtime: 1600002460},
	// two files of one name in sibling directories (a glob over them into ONE directory would map both to one path)
	{rel: "same", dir: true, mode: 0o755, mtime: 1600002600},
	{rel: "same/site-a", dir: true, mode: 0o755, mtime: 1600002601},
	{rel: "same/site-a/app.conf", body: "site=a\n", mode: 0o644, mtime: 1600002602},
	{rel: "same/site-b", dir: true, mode: 0o755, mtime: 1600002603},
	{rel: "same/site-b/app.conf", body: "site=b, longer\n", mode: 0o600, mtime: 1600002604},
	// a tree laid out like a file-system root: it passes through directories other packages own (files/fs.go lists
	// them, the logrotate ones at the end), which a tree entry must only imply
	{rel: "fsroot", dir: true, mode: 0o755, mtime: 1600002500},
	{rel: "fsroot/etc", dir: true, mode: 0o755, mtime: 1600002501},
	{rel: "fsroot/etc/logrotate.d", dir: true, mode: 0o755, mtime: 1600002502},
	{rel: "fsroot/etc/logrotate.d/app", body: "/var/log/app.log {}\n", mode: 0o644, mtime: 1600002503},
	{rel: "fsroot/usr", dir: true, mode: 0o755, mtime: 1600002504},
	{rel: "fsroot/usr/lib", dir: true, mode: 0o755, mtime: 1600002505},
	{rel: "fsroot/usr/lib/.build-id", dir: true, mode: 0o755, mtime: 1600002506},
	{rel: "fsroot/usr/lib/.build-id/ae", dir: true, mode: 0o755, mtime: 1600002507},
	{rel: "fsroot/usr/lib/.build-id/ae/deadbeef", body: "id", mode: 0o644, mtime: 1600002508},
	{rel: "fsroot/usr/share", dir: true, mode: 0o755, mtime: 1600002509},
	{rel: "fsroot/usr/share/licenses", dir: true, mode: 0o755, mtime: 1600002510},
	{rel: "fsroot/usr/share/licenses/logrotate", dir: true, mode: 0o755, mtime: 1600002511},
	{rel: "fsroot/usr/share/licenses/logrotate/COPYING", body: "GPL", mode: 0o644, mtime: 1600002512},
	{rel: "fsroot/var", dir: true, mode: 0o755, mtime: 1600002513},
	{rel: "fsroot/var/lib", dir: true, mode: 0o755, mtime: 1600002514},
	{rel: "fsroot/var/lib/logrotate", dir: true, mode: 0o755, mtime: 1600002515},
	{rel: "fsroot/var/lib/logrotate/status", body: "s", mode: 0o644, mtime: 1600002516},
	{rel: "fsroot/var/log", dir: true, mode: 0o755, mtime: 1600002520},
	{rel: "fsroot/var/log/app.log", body: "l", mode: 0o640, mtime: 1600002521},
	{rel: "fsroot/opt", dir: true, mode: 0o755, mtime: 1600002517},
	{rel: "fsroot/opt/app", dir: true, mode: 0o755, mtime: 1600002518},
	{rel: "fsroot/opt/app/bin", body: "b", mode: 0o755, mtime: 1600002519},
}

// MkTree writes the base tree under dir (which must be fresh) and fixes
// modes and mtimes explicitly so that the process umask and the clock do not
// leak into the scenario.
func MkTree(dir string, big int) (*SrcTree, error) {
	t := &SrcTree{Root: dir}
	specs := append([]treeSpec{}, baseTree...)
	if big > 0 {
		b := make([]byte, big)
		for i := range b {
			b[i] = byte(i*7 + i/251)
		}
		specs = append(specs, treeSpec{rel: "share/big.bin", body: string(b), mode: 0o644, mtime: 1600003000})
	}
	for _, s := range specs {
		p := filepath.Join(dir, s.rel)
		switch {
		case s.dir:
			if err := os.MkdirAll(p, 0o755); err != nil {
				return nil, err
			}
			t.Dirs = append(t.Dirs, p)
		case s.link != "":
			if err := os.Symlink(s.link, p); err != nil {
				return nil, err
			}
			t.Links = append(t.Links, p)
		default:
			if err := os.WriteFile(p, []byte(s.body), 0o600); err != nil {
				return nil, err
			}
			t.Files = append(t.Files, p)
		}
	}
	// modes and times after all children exist (deepest first for directory mtimes)
	for i := len(specs) - 1; i >= 0; i-- {
		s := specs[i]
		if s.link != "" {
			continue
		}
		p := filepath.Join(dir, s.rel)
		if err := os.Chmod(p, s.mode); err != nil {
			return nil, err
		}
		mt := time.Unix(s.mtime, 0)
		if err := os.Chtimes(p, mt, mt); err != nil {
			return nil, err
		}
	}
	return t, nil
}
