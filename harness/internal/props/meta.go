package props

import (
	"strconv"
	"strings"

	"verif/harness/internal/wire"
)

// VInfo mirrors lean Nfpm.VInfo.
type VInfo struct {
	Name, Arch, Epoch, Version, Schema, Release, Prerelease, Metadata, ArchOverride, Platform string
}

func (v VInfo) Enc() string {
	return strings.Join([]string{wire.H(v.Name), wire.H(v.Arch), wire.H(v.Epoch), wire.H(v.Version), wire.H(v.Schema),
		wire.H(v.Release), wire.H(v.Prerelease), wire.H(v.Metadata), wire.H(v.ArchOverride), wire.H(v.Platform)}, " ")
}

// parseControl parses an RFC822-style control file: continuation lines start
// with a space; " ." is a blank line marker.
func parseControl(b []byte) (fields map[string]string, order []string) {
	fields = map[string]string{}
	var cur string
	for _, line := range strings.Split(string(b), "\n") {
		if line == "" {
			continue
		}
		if line[0] == ' ' || line[0] == '\t' {
			if cur != "" {
				l := line[1:]
				if l == "." {
					l = ""
				}
				fields[cur] += "\n" + l
			}
			continue
		}
		i := strings.Index(line, ":")
		if i < 0 {
			continue
		}
		cur = line[:i]
		fields[cur] = strings.TrimPrefix(line[i+1:], " ")
		order = append(order, cur)
	}
	return
}

// PkgMeta is the identity metadata found inside a package.
type PkgMeta struct {
	Name, Version, Release, Epoch, Arch string
	Fields                              map[string]string   // deb/ipk control fields
	Multi                               map[string][]string // apk/arch repeated keys
}

func metaOf(dec *Decoded) PkgMeta {
	m := PkgMeta{Fields: map[string]string{}, Multi: map[string][]string{}}
	switch dec.Format {
	case "deb", "ipk":
		var body []byte
		if dec.Format == "deb" {
			body, _ = dec.Deb.ControlFile("control")
		} else {
			body, _ = dec.Ipk.ControlFile("control")
		}
		f, _ := parseControl(body)
		m.Fields = f
		m.Name, m.Version, m.Arch = f["Package"], f["Version"], f["Architecture"]
	case "apk":
		seg := dec.Apk.Segments[len(dec.Apk.Segments)-2]
		for _, e := range seg.Entries {
			if e.Name != ".PKGINFO" {
				continue
			}
			for _, line := range strings.Split(string(e.Body), "\n") {
				if i := strings.Index(line, " = "); i > 0 {
					k, v := line[:i], line[i+3:]
					m.Multi[k] = append(m.Multi[k], v)
				}
			}
		}
		first := func(k string) string {
			if len(m.Multi[k]) > 0 {
				return m.Multi[k][0]
			}
			return ""
		}
		m.Name, m.Version, m.Arch = first("pkgname"), first("pkgver"), first("arch")
	case "archlinux":
		for _, kv := range dec.Arch.Pkginfo {
			m.Multi[kv.Key] = append(m.Multi[kv.Key], kv.Value)
		}
		first := func(k string) string {
			if len(m.Multi[k]) > 0 {
				return m.Multi[k][0]
			}
			return ""
		}
		m.Name, m.Version, m.Arch = first("pkgname"), first("pkgver"), first("arch")
	case "rpm":
		str := func(tag int) string {
			if t, ok := dec.Rpm.Hdr[tag]; ok && len(t.Strs) > 0 {
				return t.Strs[0]
			}
			return ""
		}
		m.Name, m.Version, m.Release, m.Arch = str(1000), str(1001), str(1002), str(1022)
		if t, ok := dec.Rpm.Hdr[1003]; ok && len(t.Ints) > 0 {
			m.Epoch = strconv.FormatUint(t.Ints[0], 10)
		}
	}
	return m
}
