package props

// C04: every package is a well-formed archive that independent readers accept.
// The scenarios and the analyser are shared with C03 (see c03.go); this file
// adds the two families that tie the Lean container model to the code it
// models: bufio.Writer of the standard library, and apk.writeTgz as observed
// on the segments of every real apk built by the shared families.

import (
	"bufio"
	"bytes"
	"fmt"
	"os"
	"strings"

	"verif/harness/internal/report"
	"verif/harness/internal/rng"
	"verif/harness/internal/wire"
)

func init() { Registry["C04"] = runC04 }

// bufioModel compares Arc.BufW (the model of bufio.Writer that the model of
// apk.writeTgz is built on) with bufio.NewWriterSize on random write/flush
// sequences.  A difference is a disagreement, never a property finding.
func bufioModel(c *Ctx) error {
	fam := c.Rep.Family("bufio-model", "model of bufio.Writer (Arc.BufW) vs bufio.NewWriterSize(&sink, cap) for cap in {16, 64, 4096}: random sequences of up to 12 operations, writes of 0, 1, cap-1, cap, cap+1, 2cap, 3cap and random 0..3cap bytes, flushes with probability 1/4; bytes delivered downstream and Buffered() compared after the whole sequence and after every prefix of a tenth of the sequences; non-trivial = at least one write went past the buffer (downstream bytes before any flush)")
	r := c.R.Fork("c04-bufio")
	type tc struct {
		cap  int
		ops  [][]byte // nil = flush
		desc []string
	}
	var cases []tc
	var reqs []string
	enc := func(t tc) string {
		var b strings.Builder
		fmt.Fprintf(&b, "bufio %d %d", t.cap, len(t.ops))
		for _, o := range t.ops {
			if o == nil {
				b.WriteString(" f")
			} else {
				b.WriteString(" w " + wire.H(string(o)))
			}
		}
		return b.String()
	}
	n := c.N(150, 2500)
	for _, cp := range []int{16, 64, 4096} {
		for i := 0; i < n; i++ {
			k := 1 + r.Intn(12)
			t := tc{cap: cp}
			for j := 0; j < k; j++ {
				if r.Chance(1, 4) {
					t.ops = append(t.ops, nil)
					t.desc = append(t.desc, "f")
					continue
				}
				sz := rng.Pick(r, []int{0, 1, cp - 1, cp, cp + 1, 2 * cp, 3 * cp, r.Intn(3*cp + 1), r.Intn(cp + 1), r.Intn(cp + 1)})
				b := make([]byte, sz)
				for x := range b {
					b[x] = byte(r.Intn(256))
				}
				t.ops = append(t.ops, b)
				t.desc = append(t.desc, fmt.Sprintf("w%d", sz))
			}
			cases = append(cases, t)
			reqs = append(reqs, enc(t))
			if i%10 == 0 {
				for p := 1; p < len(t.ops); p++ {
					pt := tc{cap: cp, ops: t.ops[:p], desc: t.desc[:p]}
					cases = append(cases, pt)
					reqs = append(reqs, enc(pt))
				}
			}
		}
	}
	ans, err := c.D.Batch(reqs)
	if err != nil {
		return err
	}
	for i, t := range cases {
		var sink bytes.Buffer
		w := bufio.NewWriterSize(&sink, t.cap)
		early := false
		for _, o := range t.ops {
			if o == nil {
				_ = w.Flush()
			} else {
				before := sink.Len()
				_, _ = w.Write(o)
				if sink.Len() > before {
					early = true
				}
			}
		}
		impl := fmt.Sprintf("%s %d", wire.H(sink.String()), w.Buffered())
		fam.Eval(fmt.Sprintf("%d|%s", t.cap, strings.Join(t.desc, ",")), early)
		fam.Count(fmt.Sprintf("cap=%d", t.cap))
		fam.Count(fmt.Sprintf("ops<=%d", bucket(len(t.ops))))
		if strings.HasPrefix(ans[i], "bad-op") {
			return fmt.Errorf("driver answered %q to a bufio request", ans[i])
		}
		if ans[i] != impl {
			c.Rep.Disagree(report.Disagreement{Family: "bufio-model", What: "bytes delivered downstream and bytes still buffered after the sequence",
				Input: map[string]any{"cap": t.cap, "ops": t.desc, "request": c34Short(reqs[i], 4000)}, Model: c34Short(ans[i], 600), Impl: c34Short(impl, 600)})
		}
		if len(fam.Samples) < 2 && early && len(t.ops) > 3 {
			fam.Sample(map[string]any{"cap": t.cap, "ops": t.desc, "downstream_bytes": sink.Len(), "buffered": w.Buffered()})
		}
	}
	return nil
}

func runC04(c *Ctx) error {
	seg := &c34Seg{}
	e, err := c34Families(c, "C04", seg)
	if e == nil {
		return err
	}
	// the comparisons of this family ran inside the analyser, on every apk of the families above
	fam := c.Rep.Family("apk-segment-model", fmt.Sprintf("model of apk.writeTgz (Arc.tgzStream with the reviewed statement skeleton and the 4096-byte bufio model) vs every gzip segment of every apk built by the families above: the decompressed segment S is walked block by block to the end E of the last member's data, and tgzstream(full = data segment, pad = (512 - E mod 512) mod 512, [S[:E]]) must equal S byte for byte (cut segments lose exactly the end-of-archive marker, the data segment is a complete tar); segments above %d KiB are not sent through the byte-list model and are counted as skipped; a difference is the finding apk:segment-differs-from-model; non-trivial = segment compared", e.segCap>>10))
	fam.Evaluations = seg.Compared + seg.Skipped
	fam.Nontrivial = seg.Compared
	fam.Distribution["apk-packages"] = seg.Packages
	fam.Distribution["segments-compared"] = seg.Compared
	fam.Distribution["segments-skipped-too-large"] = seg.Skipped
	famT := c.Rep.Family("tar-byte-model", "byte-level model of the rpm file (RpmHdr.file: lead, signature header padded to 8, header, payload; reader RpmHdr.readFile_file) vs every rpm, byte-level model of the rpm cpio payload (Cpio.archive, reader Cpio.read_archive) vs every decompressed rpm payload, and byte-level model of archive/tar in its GNU and USTAR header flavours (Tar.archive: header fields, magic/version per flavour, leading-zero octal, NUL-filled strings, checksum, body padding, two zero blocks) vs every data, control and outer tar stream of every deb and ipk, the whole tar stream of every archlinux package and every gzip segment of every apk (cut segments completed with the end marker) built by the families above: the stream must equal the model's rendering of its own decoded members byte for byte, and the Lean reader proved correct for that model (Tar.read_archive) must recover the same members as the Go reader; members with PAX extension records are rendered through the model's extension-member writer (Tar.paxArchive) and read back by the proven reader (Tar.paxRead); streams holding a member outside the model (names over 100 bytes, mode values beyond the octal field, PAX records that replace a header field) or larger than 384 KiB are counted as skipped, by reason; non-trivial = stream compared")
	famT.Evaluations = seg.TarCompared + seg.TarSkipped
	famT.Nontrivial = seg.TarCompared
	famT.Distribution["tar-streams-compared"] = seg.TarCompared
	famT.Distribution["tar-streams-skipped"] = seg.TarSkipped
	for k, v := range seg.TarBy {
		famT.Distribution[k] = v
	}
	if err2 := bufioModel(c); err == nil {
		err = err2
	}
	c34SchemaProbe(c, e)
	// the file the command line leaves at the target is the package and nothing else, also when something was there before
	famC := c.Rep.Family("cli-existing-target", "the built nfpm binary, `nfpm package` x 5 formats x {-t file, -t directory (conventional name)} onto a target where a larger file already exists vs the same build into a fresh directory (mtime fixed): the bytes left at the target must be exactly the freshly built package - a well-formed container with nothing after it; non-trivial = always")
	famC.Exhaustive = true
	if bin, berr := BuildNfpmBinary(c.Repo, c.Tmp); berr != nil {
		c.Rep.Note("cli-existing-target: cannot build the nfpm binary: %v", berr)
	} else if root, merr := os.MkdirTemp(c.Tmp, "cli-existing-"); merr == nil {
		CliExistingTargetCases(c, famC, bin, "C04", root)
	}
	return err
}

// c34SchemaProbe records (as a note, not a finding: the settings are outside the
// quantifier of C04) rpm compression settings that match the schema pattern
// ^(gzip|lzma|xz|zstd)(:.+)?$ but that the packager rejects.
func c34SchemaProbe(c *Ctx, e *c34Env) {
	var rejected []string
	for _, comp := range []string{"xz:6", "lzma:1", "gzip:10", "gzip:fast", "zstd:ultra", "zstd:1:2"} {
		s := c34WithCompression(c34Base(e.mixedPayload(), 1700000000), "", comp)
		if _, err := BuildPkg("rpm", s.Info()); err != nil {
			rejected = append(rejected, fmt.Sprintf("%s (%v)", comp, err))
		}
	}
	if len(rejected) > 0 {
		c.Rep.Note("C04 (not a finding, outside the quantified settings gzip:N/xz/lzma/zstd:N): rpm compression settings that match the schema pattern but are rejected by the packager: %s", strings.Join(rejected, "; "))
	}
}
