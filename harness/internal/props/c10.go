package props

import (
	"bytes"
	"crypto"
	"crypto/ecdsa"
	"crypto/elliptic"
	"crypto/md5"
	"crypto/rand"
	"crypto/rsa"
	"crypto/sha1"
	"crypto/x509"
	"encoding/hex"
	"encoding/pem"
	"errors"
	"fmt"
	"io"
	"os"
	"os/exec"
	"path/filepath"
	"strconv"
	"strings"

	"github.com/ProtonMail/go-crypto/openpgp"
	"github.com/ProtonMail/go-crypto/openpgp/armor"
	"github.com/ProtonMail/go-crypto/openpgp/clearsign"
	"github.com/ProtonMail/go-crypto/openpgp/packet"
	"github.com/goreleaser/nfpm/v2"
	"verif/harness/internal/report"
	"verif/harness/internal/rng"
)

func init() { Registry["C10"] = runC10 }

// ---- key material of /repo/internal/sign/testdata ----

type c10PGPKey struct {
	Label string
	File  string // private key file (base name)
	Pass  string
	KeyID string // "" = not set
}

// the ten variants internal/sign/pgp_test.go signs with; all verify with pubkey.asc / pubkey.gpg
var c10PGPKeys = []c10PGPKey{
	{"binary-protected", "privkey.gpg", "hunter2", ""},
	{"binary-unprotected", "privkey_unprotected.gpg", "", ""},
	{"armored-protected", "privkey.asc", "hunter2", ""},
	{"armored-unprotected", "privkey_unprotected.asc", "", ""},
	{"armored-subkey-only", "privkey_unprotected_subkey_only.asc", "", ""},
	{"binary-protected+keyid", "privkey.gpg", "hunter2", "bc8acdd415bd80b3"},
	{"binary-unprotected+keyid", "privkey_unprotected.gpg", "", "bc8acdd415bd80b3"},
	{"armored-protected+keyid", "privkey.asc", "hunter2", "bc8acdd415bd80b3"},
	{"armored-unprotected+keyid", "privkey_unprotected.asc", "", "bc8acdd415bd80b3"},
	{"armored-subkey-only+keyid", "privkey_unprotected_subkey_only.asc", "", "9890904dfb2ec88a"},
}

type c10RSAKey struct {
	Label, Priv, Pub, Pass string
}

var c10RSAKeys = []c10RSAKey{
	{"pkcs1-unprotected", "rsa_unprotected.priv", "rsa_unprotected.pub", ""},
	{"pkcs1-protected", "rsa.priv", "rsa.pub", "hunter2"},
	{"pkcs8-unprotected", "rsa_pkcs8.priv", "rsa_pkcs8.pub", ""},
	// a passphrase configured although the key needs none (NFPM_PASSPHRASE exported for another format's key, say)
	{"pkcs1-unprotected+passphrase", "rsa_unprotected.priv", "rsa_unprotected.pub", "hunter2"},
	{"pkcs8-unprotected+passphrase", "rsa_pkcs8.priv", "rsa_pkcs8.pub", "hunter2"},
}

type c10ApkName struct {
	KeyName, Maintainer, Want string
}

var c10ApkNames = []c10ApkName{
	{"", "Foo <foo@example.com>", "foo@example.com.rsa.pub"},
	{"", "Jane Doe <Jane.Doe@Example.COM>", "Jane.Doe@Example.COM.rsa.pub"}, // the address as written: apk looks the key up by this very name
	{"", "", "verif@example.com.rsa.pub"},                                   // maintainer of PkgSpec.Info
	{"origin", "", "origin.rsa.pub"},
	{"x.rsa.pub", "", "x.rsa.pub"},
}

var errC10Injected = errors.New("injected signer failure")

type c10env struct {
	c        *Ctx
	td       string // testdata directory
	rings    []openpgp.EntityList
	ringName []string
	rsaPub   map[string]*rsa.PublicKey
	specs    []*PkgSpec
	// nfpm-independent signing primitives for the callback family
	cbEntity *openpgp.Entity
	cbRSA    *rsa.PrivateKey
	gpgDone  bool
	roleNote bool
	sde      string // SOURCE_DATE_EPOCH in force while the families run ("" = unset)
}

func (x *c10env) key(name string) string { return filepath.Join(x.td, name) }

func c10ptr(s string) *string {
	if s == "" {
		return nil
	}
	return &s
}

// derive returns a copy of base whose Info additionally gets f applied; desc is added to the reported input.
func c10derive(base *PkgSpec, desc map[string]any, f func(*nfpm.Info)) *PkgSpec {
	s := *base
	inner := base.Mutate
	s.Mutate = func(info *nfpm.Info) {
		if inner != nil {
			inner(info)
		}
		f(info)
	}
	s.Describe = map[string]any{}
	for k, v := range base.Describe {
		s.Describe[k] = v
	}
	for k, v := range desc {
		s.Describe[k] = v
	}
	return &s
}

func c10cat(parts ...[]byte) []byte {
	var b []byte
	for _, p := range parts {
		b = append(b, p...)
	}
	return b
}

func c10flip(msg []byte) []byte {
	b := append([]byte{}, msg...)
	if len(b) == 0 {
		return []byte{1}
	}
	b[len(b)/2] ^= 0x01
	return b
}

// pgpVerify checks a detached signature with both public key files.
func (x *c10env) pgpVerify(msg, sig []byte, armored bool) error {
	for i, ring := range x.rings {
		var err error
		var signer *openpgp.Entity
		if armored {
			signer, err = openpgp.CheckArmoredDetachedSignature(ring, bytes.NewReader(msg), bytes.NewReader(sig), nil)
		} else {
			signer, err = openpgp.CheckDetachedSignature(ring, bytes.NewReader(msg), bytes.NewReader(sig), nil)
		}
		if err != nil {
			return fmt.Errorf("%s: %w", x.ringName[i], err)
		}
		if signer == nil {
			return fmt.Errorf("%s: no signer identified", x.ringName[i])
		}
	}
	return nil
}

func c10issuer(sig []byte, armored bool) (uint64, error) {
	var rd io.Reader = bytes.NewReader(sig)
	if armored {
		b, err := armor.Decode(rd)
		if err != nil {
			return 0, err
		}
		rd = b.Body
	}
	p, err := packet.Read(rd)
	if err != nil {
		return 0, err
	}
	s, ok := p.(*packet.Signature)
	if !ok {
		return 0, fmt.Errorf("first packet is %T, not a signature", p)
	}
	if s.IssuerKeyId == nil {
		return 0, errors.New("signature without issuer key id")
	}
	return *s.IssuerKeyId, nil
}

// checkPGP verifies sig over msg, rejects it over a perturbed msg and compares the issuer with the requested key id.
func (x *c10env) checkPGP(fam, shapePrefix, what string, msg, sig []byte, armored bool, keyID string, in map[string]any) bool {
	ok := true
	if err := x.pgpVerify(msg, sig, armored); err != nil {
		x.c.Rep.Find(report.Finding{Property: "C10", Family: fam, Shape: shapePrefix + "signature-does-not-verify",
			What: fmt.Sprintf("%s does not verify with the matching public key over the %d bytes the verifier reads: %v", what, len(msg), err), Input: in})
		return false
	}
	if err := x.pgpVerify(c10flip(msg), sig, armored); err == nil {
		x.c.Rep.Find(report.Finding{Property: "C10", Family: fam, Shape: shapePrefix + "signature-verifies-over-perturbed-region",
			What: what + " still verifies after one bit of the signed region was flipped", Input: in})
		ok = false
	}
	if keyID != "" {
		want, _ := strconv.ParseUint(keyID, 16, 64)
		got, err := c10issuer(sig, armored)
		if err != nil || got != want {
			x.c.Rep.Find(report.Finding{Property: "C10", Family: fam, Shape: shapePrefix + "issuer-differs-from-key-id",
				What: fmt.Sprintf("%s: issuer key id %x (err %v), configured key id %s", what, got, err, keyID), Input: in})
			ok = false
		}
	}
	return ok
}

// build packages a signed spec; a failure here is a finding because every base spec builds unsigned.
func (x *c10env) build(fam *report.Family, famName, format, pre string, s *PkgSpec, label string) (*Decoded, map[string]any, bool) {
	in := s.Input()
	in["format"] = format
	if x.sde != "" {
		in["SOURCE_DATE_EPOCH"] = x.sde
		label += "|SOURCE_DATE_EPOCH=" + x.sde
	}
	key := fmt.Sprintf("%s|%v", format, in)
	data, err := BuildPkg(format, s.Info())
	if err != nil {
		fam.Eval(key, false)
		fam.Count(format + ":build-error")
		shape := pre + "signed-build-error"
		if pre == "deb:dpkg-sig:" && !strings.Contains(err.Error(), "dummy key") {
			// the recorded finding is the subkey-only key file, whose primary key is a dummy: any other failure is new
			shape += ":not-the-recorded-subkey-only-case"
		}
		x.c.Rep.Find(report.Finding{Property: "C10", Family: famName, Shape: shape,
			What: "the spec builds unsigned but fails with signing configured: " + err.Error(), Input: in})
		return nil, in, false
	}
	dec, err := DecodePkg(format, data)
	if err != nil {
		fam.Eval(key, false)
		fam.Count(format + ":undecodable")
		x.c.Rep.Find(report.Finding{Property: "C10", Family: famName, Shape: pre + "signed-package-undecodable",
			What: "independent reader rejects the signed package: " + err.Error(), Input: in})
		return nil, in, false
	}
	fam.Eval(key, true)
	fam.Count(label)
	return dec, in, true
}

// ---- deb ----

type c10Manifest struct {
	Role  string
	Files [][4]string // md5, sha1, size, name
}

func c10parseManifest(text []byte) (c10Manifest, error) {
	var m c10Manifest
	inFiles := false
	for _, ln := range strings.Split(strings.ReplaceAll(string(text), "\r\n", "\n"), "\n") {
		switch {
		case strings.HasPrefix(ln, "Role: "):
			m.Role = strings.TrimPrefix(ln, "Role: ")
		case ln == "Files:":
			inFiles = true
		case inFiles && strings.HasPrefix(ln, "\t"):
			f := strings.Split(strings.TrimPrefix(ln, "\t"), " ")
			if len(f) != 4 {
				return m, fmt.Errorf("malformed Files line %q", ln)
			}
			m.Files = append(m.Files, [4]string{f[0], f[1], f[2], f[3]})
		case inFiles && ln != "":
			inFiles = false
		}
	}
	if len(m.Files) == 0 {
		return m, errors.New("no Files lines")
	}
	return m, nil
}

// checkManifest compares the manifest's digest lines with the stored ar members.
func (x *c10env) checkManifest(famName, shapeMismatch string, dec *Decoded, manifest []byte, in map[string]any) bool {
	d := dec.Deb
	m, err := c10parseManifest(manifest)
	if err != nil {
		x.c.Rep.Find(report.Finding{Property: "C10", Family: famName, Shape: shapeMismatch, What: "dpkg-sig manifest: " + err.Error(), Input: in})
		return false
	}
	want := [][]byte{d.DebianBinary, d.ControlRaw, d.DataRaw}
	names := []string{"debian-binary", "control.tar.gz", d.DataName}
	if len(m.Files) != 3 {
		x.c.Rep.Find(report.Finding{Property: "C10", Family: famName, Shape: shapeMismatch, What: fmt.Sprintf("dpkg-sig manifest lists %d files, the package stores 3 signed members", len(m.Files)), Input: in})
		return false
	}
	ok := true
	for i, f := range m.Files {
		md, sh := md5.Sum(want[i]), sha1.Sum(want[i])
		if f[0] != hex.EncodeToString(md[:]) || f[1] != hex.EncodeToString(sh[:]) || f[2] != strconv.Itoa(len(want[i])) {
			x.c.Rep.Find(report.Finding{Property: "C10", Family: famName, Shape: shapeMismatch,
				What: fmt.Sprintf("manifest line %q does not match stored member %s (md5 %x sha1 %x size %d)", strings.Join(f[:], " "), names[i], md, sh, len(want[i])), Input: in})
			ok = false
		}
		if f[3] != names[i] {
			shape := "deb:dpkg-sig:manifest-name-differs-from-member"
			if i < 2 {
				shape = shapeMismatch
			}
			x.c.Rep.Find(report.Finding{Property: "C10", Family: famName, Shape: shape,
				What: fmt.Sprintf("the signed manifest names its file %d %q but the ar member carrying those bytes is %q; a verifier looking members up by the manifest's names does not find it", i+1, f[3], names[i]), Input: in})
		}
	}
	return ok
}

// debSigMember locates the signature member; want is the expected member name.
func (x *c10env) debSigMember(famName, method string, dec *Decoded, want string, in map[string]any) ([]byte, bool) {
	d := dec.Deb
	sigIdx, dataIdx, nSig := -1, -1, 0
	for i, m := range d.Members {
		if strings.HasPrefix(m.Name, "_gpg") {
			nSig++
			if sigIdx < 0 {
				sigIdx = i
			}
		}
		if m.Name == d.DataName && dataIdx < 0 {
			dataIdx = i
		}
	}
	var names []string
	for _, m := range d.Members {
		names = append(names, m.Name)
	}
	pre := "deb:" + method + ":"
	if sigIdx < 0 {
		x.c.Rep.Find(report.Finding{Property: "C10", Family: famName, Shape: pre + "no-signature-member",
			What: fmt.Sprintf("signing was configured but the archive has no _gpg* member: %v", names), Input: in})
		return nil, false
	}
	if nSig != 1 || d.Members[sigIdx].Name != want {
		x.c.Rep.Find(report.Finding{Property: "C10", Family: famName, Shape: pre + "wrong-member-name",
			What: fmt.Sprintf("expected exactly one signature member %q, archive members are %v", want, names), Input: in})
		return nil, false
	}
	if dataIdx < 0 || sigIdx < dataIdx || dataIdx != 2 || d.Members[0].Name != "debian-binary" || d.Members[1].Name != "control.tar.gz" {
		x.c.Rep.Find(report.Finding{Property: "C10", Family: famName, Shape: pre + "signature-member-not-after-data",
			What: fmt.Sprintf("member order %v: expected debian-binary, control.tar.gz, data member, then the signature", names), Input: in})
		return nil, false
	}
	return d.Members[sigIdx].Body, true
}

func (x *c10env) debsignFamily() {
	c := x.c
	const famName = "deb-debsign"
	fam := c.Rep.Family(famName, "deb, method debsign: every usable PGP key file of internal/sign/testdata (binary/armored, protected/unprotected, subkey-only; each with and without key_id: 10 variants) x signature type {unset, origin, maint, archive} is covered; payload specs rotate under the matrix; the armored detached signature in member _gpg<type> is verified with pubkey.asc and pubkey.gpg over debian-binary ++ control.tar.gz ++ data member bodies as stored, must fail over a one-bit perturbation, and its issuer must be the configured key id; non-trivial = package built and decoded")
	types := []string{"", "origin", "maint", "archive"}
	n := len(c10PGPKeys) * len(types)
	x.sweep(n, c.N(5, 8), func(base *PkgSpec, k int) {
		key, typ := c10PGPKeys[k%len(c10PGPKeys)], types[k/len(c10PGPKeys)]
		s := c10derive(base, map[string]any{"deb.signature": map[string]any{"method": "debsign", "key_file": key.File, "key": key.Label, "key_id": key.KeyID, "type": typ}}, func(info *nfpm.Info) {
			info.Deb.Signature.KeyFile = x.key(key.File)
			info.Deb.Signature.KeyPassphrase = key.Pass
			info.Deb.Signature.KeyID = c10ptr(key.KeyID)
			info.Deb.Signature.Type = typ
		})
		dec, in, ok := x.build(fam, famName, "deb", "deb:debsign:", s, key.Label+"|type="+typ)
		if !ok {
			return
		}
		want := typ
		if want == "" {
			want = "origin"
		}
		sig, ok := x.debSigMember(famName, "debsign", dec, "_gpg"+want, in)
		if !ok {
			return
		}
		msg := c10cat(dec.Deb.DebianBinary, dec.Deb.ControlRaw, dec.Deb.DataRaw)
		good := x.checkPGP(famName, "deb:debsign:", "member _gpg"+want, msg, sig, true, key.KeyID, in)
		if good && !x.gpgDone {
			x.gpgDone = true
			x.gpgCrossCheck(msg, sig)
		}
		if len(fam.Samples) < 2 {
			fam.Sample(map[string]any{"input": in, "members": len(dec.Deb.Members), "signed_bytes": len(msg), "signature_bytes": len(sig), "verified": good})
		}
	})
}

func (x *c10env) dpkgSigFamily() {
	c := x.c
	const famName = "deb-dpkg-sig"
	fam := c.Rep.Family(famName, "deb, method dpkg-sig: 10 key variants x role {unset(builder), builder, origin, maint, archive} x data compression {gzip default, gzip, xz, zstd, none} rotated so that every key x role pair and every role x compression pair occurs; the clear-signed member _gpg<role> is decoded, its signature verified over the canonical text with both public key files (and must fail on a perturbed text), and the manifest's md5/sha1/size lines are compared with the stored members; non-trivial = package built and decoded")
	roles := []string{"", "builder", "origin", "maint", "archive"}
	n := len(c10PGPKeys) * len(roles)
	x.sweep(n, c.N(7, 8), func(base *PkgSpec, k int) {
		key, role := c10PGPKeys[k%len(c10PGPKeys)], roles[(k/len(c10PGPKeys))%len(roles)]
		comp := debCompressions[(k+k/len(c10PGPKeys))%len(debCompressions)]
		signer := ""
		if k%3 == 0 {
			signer = "bob McRobert <bob@example.com>"
		}
		s := c10derive(base, map[string]any{"deb.compression": comp, "deb.signature": map[string]any{"method": "dpkg-sig", "key_file": key.File, "key": key.Label, "key_id": key.KeyID, "type": role, "signer": signer}}, func(info *nfpm.Info) {
			info.Deb.Compression = comp
			info.Deb.Signature.Method = "dpkg-sig"
			info.Deb.Signature.KeyFile = x.key(key.File)
			info.Deb.Signature.KeyPassphrase = key.Pass
			info.Deb.Signature.KeyID = c10ptr(key.KeyID)
			info.Deb.Signature.Type = role
			info.Deb.Signature.Signer = signer
		})
		dec, in, ok := x.build(fam, famName, "deb", "deb:dpkg-sig:", s, key.Label+"|role="+role+"|"+comp)
		if !ok {
			return
		}
		want := role
		if want == "" {
			want = "builder"
		}
		sig, ok := x.debSigMember(famName, "dpkg-sig", dec, "_gpg"+want, in)
		if !ok {
			return
		}
		block, rest := clearsign.Decode(sig)
		if block == nil || len(bytes.TrimSpace(rest)) != 0 {
			c.Rep.Find(report.Finding{Property: "C10", Family: famName, Shape: "deb:dpkg-sig:signature-does-not-verify",
				What: fmt.Sprintf("member _gpg%s is not exactly one clear-signed message (%d trailing bytes)", want, len(rest)), Input: in})
			return
		}
		sigPkt, err := io.ReadAll(block.ArmoredSignature.Body)
		if err != nil {
			c.Rep.Find(report.Finding{Property: "C10", Family: famName, Shape: "deb:dpkg-sig:signature-does-not-verify", What: "armored signature of the clear-signed member is unreadable: " + err.Error(), Input: in})
			return
		}
		good := x.checkPGP(famName, "deb:dpkg-sig:", "clear-signed member _gpg"+want, block.Bytes, sigPkt, false, key.KeyID, in)
		good = x.checkManifest(famName, "deb:dpkg-sig:digest-mismatch", dec, block.Plaintext, in) && good
		if m, err := c10parseManifest(block.Plaintext); err == nil && m.Role != want && !x.roleNote {
			x.roleNote = true
			c.Rep.Note("C10 dpkg-sig (not a finding): with signature type %q the member is _gpg%s but the signed manifest says Role: %q; the signed text also starts with an empty line and a literal 'Hash: SHA1' line, and Date is rendered with Go's Time.String: %q", role, want, m.Role, strings.SplitN(string(block.Plaintext), "Files:", 2)[0])
		}
		if len(fam.Samples) < 2 {
			fam.Sample(map[string]any{"input": in, "data_member": dec.Deb.DataName, "manifest": string(block.Plaintext), "verified": good})
		}
	})
}

// ---- rpm ----

const (
	c10RpmSigHeaderOnly    = 268  // RPMSIGTAG_RSA: rpmpack sigRSA (0x010c), signature over the main header
	c10RpmSigHeaderPayload = 1002 // RPMSIGTAG_PGP: rpmpack sigPGP (0x03ea), signature over header ++ payload
)

func (x *c10env) rpmSigs(famName string, dec *Decoded, in map[string]any) (hdrSig, allSig []byte, ok bool) {
	a, okA := dec.Rpm.Sig[c10RpmSigHeaderOnly]
	b, okB := dec.Rpm.Sig[c10RpmSigHeaderPayload]
	if !okA || !okB || a.Type != 7 || b.Type != 7 {
		x.c.Rep.Find(report.Finding{Property: "C10", Family: famName, Shape: "rpm:signature-tag-missing",
			What: fmt.Sprintf("signature header tags %v: tag 268 (RSA, header only) present=%v type=%d, tag 1002 (PGP, header+payload) present=%v type=%d; both must be binary", dec.Rpm.SigOrder, okA, a.Type, okB, b.Type), Input: in})
		return nil, nil, false
	}
	return a.Bin, b.Bin, true
}

func (x *c10env) rpmFamily() {
	c := x.c
	const famName = "rpm"
	fam := c.Rep.Family(famName, "rpm: the 10 PGP key variants (binary/armored, protected/unprotected, subkey-only, with/without key_id) over rotating payload specs and payload compressors; signature header tag 268 is verified as a binary OpenPGP signature over the main header as shipped, tag 1002 over main header ++ compressed payload as shipped, each with both public key files, each must fail over a one-bit perturbation, issuer = configured key id; non-trivial = package built and decoded")
	x.sweep(len(c10PGPKeys), c.N(3, 4), func(base *PkgSpec, k int) {
		key := c10PGPKeys[k]
		s := c10derive(base, map[string]any{"rpm.signature": map[string]any{"key_file": key.File, "key": key.Label, "key_id": key.KeyID}}, func(info *nfpm.Info) {
			info.RPM.Signature.KeyFile = x.key(key.File)
			info.RPM.Signature.KeyPassphrase = key.Pass
			info.RPM.Signature.KeyID = c10ptr(key.KeyID)
		})
		dec, in, ok := x.build(fam, famName, "rpm", "rpm:", s, key.Label)
		if !ok {
			return
		}
		hs, as, ok := x.rpmSigs(famName, dec, in)
		if !ok {
			return
		}
		g1 := x.checkPGP(famName, "rpm:header-", "signature tag 268", dec.Rpm.HeaderRaw, hs, false, key.KeyID, in)
		g2 := x.checkPGP(famName, "rpm:header+payload-", "signature tag 1002", c10cat(dec.Rpm.HeaderRaw, dec.Rpm.PayloadRaw), as, false, key.KeyID, in)
		if len(fam.Samples) < 2 {
			fam.Sample(map[string]any{"input": in, "sig_tags": dec.Rpm.SigOrder, "header_bytes": len(dec.Rpm.HeaderRaw), "payload_bytes": len(dec.Rpm.PayloadRaw), "verified": g1 && g2})
		}
	})
}

// ---- apk ----

func (x *c10env) apkSig(famName string, dec *Decoded, wantName string, in map[string]any) ([]byte, bool) {
	a := dec.Apk
	if len(a.Segments) != 3 || len(a.Segments[0].Entries) != 1 {
		n := -1
		if len(a.Segments) > 0 {
			n = len(a.Segments[0].Entries)
		}
		x.c.Rep.Find(report.Finding{Property: "C10", Family: famName, Shape: "apk:signature-segment-missing",
			What: fmt.Sprintf("expected 3 gzip segments with a single-entry signature segment first; got %d segments, first has %d entries", len(a.Segments), n), Input: in})
		return nil, false
	}
	e := a.Segments[0].Entries[0]
	if e.Name != ".SIGN.RSA."+wantName {
		x.c.Rep.Find(report.Finding{Property: "C10", Family: famName, Shape: "apk:wrong-signature-name",
			What: fmt.Sprintf("signature entry is named %q, expected %q", e.Name, ".SIGN.RSA."+wantName), Input: in})
		return nil, false
	}
	return e.Body, true
}

func (x *c10env) apkVerify(famName string, dec *Decoded, sig []byte, pub *rsa.PublicKey, in map[string]any) bool {
	region := dec.Apk.Segments[1].Raw
	dg := sha1.Sum(region)
	if err := rsa.VerifyPKCS1v15(pub, crypto.SHA1, dg[:], sig); err != nil {
		x.c.Rep.Find(report.Finding{Property: "C10", Family: famName, Shape: "apk:signature-does-not-verify",
			What: fmt.Sprintf("RSA PKCS#1 v1.5 SHA-1 signature does not verify over the %d-byte control segment as shipped: %v", len(region), err), Input: in})
		return false
	}
	dg2 := sha1.Sum(c10flip(region))
	if rsa.VerifyPKCS1v15(pub, crypto.SHA1, dg2[:], sig) == nil {
		x.c.Rep.Find(report.Finding{Property: "C10", Family: famName, Shape: "apk:signature-verifies-over-perturbed-region", What: "signature still verifies after one bit of the control segment was flipped", Input: in})
		return false
	}
	return true
}

func (x *c10env) apkFamily() {
	c := x.c
	const famName = "apk"
	fam := c.Rep.Family(famName, "apk: RSA key {PKCS#1 unprotected, PKCS#1 protected with passphrase, PKCS#8 unprotected, both unprotected ones with a passphrase configured that they do not need} x key name {unset + maintainer Foo <foo@example.com>, unset + maintainer with upper-case letters in the address, unset + default maintainer, origin, x.rsa.pub} (all pairs) over rotating payload specs; the package must have 3 gzip segments, the first holding exactly .SIGN.RSA.<name>.rsa.pub, whose body must verify (PKCS#1 v1.5, SHA-1) with the matching public key over the second segment's compressed bytes as shipped and fail over a one-bit perturbation; non-trivial = package built and decoded")
	n := len(c10RSAKeys) * len(c10ApkNames)
	x.sweep(n, c.N(3, 4), func(base *PkgSpec, k int) {
		key, nm := c10RSAKeys[k%len(c10RSAKeys)], c10ApkNames[k/len(c10RSAKeys)]
		s := c10derive(base, map[string]any{"maintainer": nm.Maintainer, "apk.signature": map[string]any{"key_file": key.Priv, "key": key.Label, "key_name": nm.KeyName}}, func(info *nfpm.Info) {
			if nm.Maintainer != "" {
				info.Maintainer = nm.Maintainer
			}
			info.APK.Signature.KeyFile = x.key(key.Priv)
			info.APK.Signature.KeyPassphrase = key.Pass
			info.APK.Signature.KeyName = nm.KeyName
		})
		dec, in, ok := x.build(fam, famName, "apk", "apk:", s, key.Label+"|name="+nm.Want)
		if !ok {
			return
		}
		sig, ok := x.apkSig(famName, dec, nm.Want, in)
		if !ok {
			return
		}
		good := x.apkVerify(famName, dec, sig, x.rsaPub[key.Pub], in)
		if len(fam.Samples) < 2 {
			fam.Sample(map[string]any{"input": in, "entry": dec.Apk.Segments[0].Entries[0].Name, "control_segment_bytes": len(dec.Apk.Segments[1].Raw), "verified": good})
		}
	})
}

// ---- callbacks ----

type c10capture struct {
	msgs  [][]byte
	blobs [][]byte
}

// signFn returns a callback that records what it was given and answers with mk(msg).
func (cp *c10capture) signFn(mk func([]byte) ([]byte, error)) func(io.Reader) ([]byte, error) {
	return func(r io.Reader) ([]byte, error) {
		b, err := io.ReadAll(r)
		if err != nil {
			return nil, err
		}
		cp.msgs = append(cp.msgs, b)
		out, err := mk(b)
		if err != nil {
			return nil, err
		}
		cp.blobs = append(cp.blobs, append([]byte{}, out...))
		return out, nil
	}
}

func (x *c10env) callbacksFamily(r *rng.R) {
	c := x.c
	const famName = "callbacks"
	fam := c.Rep.Family(famName, "SignFn instead of a key file – and, in the second half of the cases, next to a configured key file – for deb/debsign, deb/dpkg-sig, rpm, apk x answer {real signature made with go-crypto / crypto/rsa directly from the unprotected test keys, fixed random blob of odd length}: every byte string handed to the callback is recorded and compared with the regions of the final package (deb: debian-binary++control++data bodies, or the manifest whose digests match them; rpm: exactly two calls {header, header++payload}; apk: the 20-byte SHA-1 of the control segment as shipped); the callback's answer must be stored verbatim (deb member body, rpm tag 268/1002, apk .SIGN entry); real answers are also verified from the package; non-trivial = package built and decoded")
	kinds := []string{"deb/debsign", "deb/dpkg-sig", "rpm", "apk"}
	differ := func(format string, in map[string]any, what string) {
		c.Rep.Find(report.Finding{Property: "C10", Family: famName, Shape: format + ":callback-bytes-differ-from-signed-region", What: what, Input: in})
	}
	notVerbatim := func(format string, in map[string]any, what string) {
		c.Rep.Find(report.Finding{Property: "C10", Family: famName, Shape: format + ":callback-signature-not-stored-verbatim", What: what, Input: in})
	}
	x.sweep(len(kinds)*4, c.N(16, 16), func(base *PkgSpec, k int) {
		// the second half: a key file is configured as well (a configuration file that names the key, a caller that
		// plugs in its own signer) – the callback is still the signer
		withKey := k >= len(kinds)*2
		k = k % (len(kinds) * 2)
		kind, real := kinds[k%len(kinds)], k/len(kinds) == 0
		blob := make([]byte, 33+2*r.Intn(40))
		for i := range blob {
			blob[i] = byte(r.Intn(256))
		}
		fixed := func([]byte) ([]byte, error) { return blob, nil }
		cp := &c10capture{}
		answer := "blob"
		if real {
			answer = "real"
		}
		desc := map[string]any{"sign_fn": kind, "answer": answer}
		if withKey {
			desc["key_file_also_configured"] = true
			answer += "+key-file"
		}
		switch kind {
		case "deb/debsign", "deb/dpkg-sig":
			method := strings.TrimPrefix(kind, "deb/")
			mk := fixed
			if real && method == "debsign" {
				mk = func(m []byte) ([]byte, error) {
					var w bytes.Buffer
					err := openpgp.ArmoredDetachSign(&w, x.cbEntity, bytes.NewReader(m), nil)
					return w.Bytes(), err
				}
			} else if real {
				mk = func(m []byte) ([]byte, error) {
					var w bytes.Buffer
					wc, err := clearsign.Encode(&w, x.cbEntity.PrivateKey, nil)
					if err != nil {
						return nil, err
					}
					if _, err := wc.Write(m); err != nil {
						return nil, err
					}
					err = wc.Close()
					return w.Bytes(), err
				}
			}
			typ := []string{"", "maint", "archive", "origin"}[r.Intn(4)]
			desc["deb.signature"] = map[string]any{"method": method, "type": typ}
			s := c10derive(base, desc, func(info *nfpm.Info) {
				info.Deb.Signature.Method = method
				info.Deb.Signature.Type = typ
				info.Deb.Signature.SignFn = cp.signFn(mk)
				if withKey {
					info.Deb.Signature.KeyFile = x.key("privkey_unprotected.asc")
				}
			})
			dec, in, ok := x.build(fam, famName, "deb", "deb:"+method+":", s, kind+"|"+answer)
			if !ok {
				return
			}
			want := typ
			if want == "" {
				want = map[string]string{"debsign": "origin", "dpkg-sig": "builder"}[method]
			}
			sig, ok := x.debSigMember(famName, method, dec, "_gpg"+want, in)
			if !ok {
				return
			}
			if len(cp.msgs) != 1 {
				differ("deb", in, fmt.Sprintf("the callback was called %d times, expected once", len(cp.msgs)))
				return
			}
			region := c10cat(dec.Deb.DebianBinary, dec.Deb.ControlRaw, dec.Deb.DataRaw)
			if method == "debsign" {
				if !bytes.Equal(cp.msgs[0], region) {
					differ("deb", in, fmt.Sprintf("callback received %d bytes, debian-binary++control++data as stored are %d bytes; contents differ", len(cp.msgs[0]), len(region)))
				}
			} else {
				x.checkManifest(famName, "deb:callback-bytes-differ-from-signed-region", dec, cp.msgs[0], in)
			}
			if !bytes.Equal(sig, cp.blobs[0]) {
				notVerbatim("deb", in, fmt.Sprintf("member _gpg%s (%d bytes) is not the callback's answer (%d bytes)", want, len(sig), len(cp.blobs[0])))
			}
			if real && method == "debsign" {
				x.checkPGP(famName, "deb:debsign:", "callback-made member _gpg"+want, region, sig, true, "", in)
			} else if real {
				if block, _ := clearsign.Decode(sig); block == nil {
					notVerbatim("deb", in, "callback-made clear-signed member does not decode")
				} else if pkt, err := io.ReadAll(block.ArmoredSignature.Body); err == nil {
					x.checkPGP(famName, "deb:dpkg-sig:", "callback-made clear-signed member", block.Bytes, pkt, false, "", in)
				}
			}
		case "rpm":
			mk := fixed
			if real {
				mk = func(m []byte) ([]byte, error) {
					var w bytes.Buffer
					err := openpgp.DetachSign(&w, x.cbEntity, bytes.NewReader(m), nil)
					return w.Bytes(), err
				}
			}
			s := c10derive(base, desc, func(info *nfpm.Info) {
				info.RPM.Signature.SignFn = cp.signFn(mk)
				if withKey {
					info.RPM.Signature.KeyFile = x.key("privkey_unprotected.asc")
				}
			})
			dec, in, ok := x.build(fam, famName, "rpm", "rpm:", s, kind+"|"+answer)
			if !ok {
				return
			}
			hs, as, ok := x.rpmSigs(famName, dec, in)
			if !ok {
				return
			}
			hdr, all := dec.Rpm.HeaderRaw, c10cat(dec.Rpm.HeaderRaw, dec.Rpm.PayloadRaw)
			if len(cp.msgs) != 2 {
				differ("rpm", in, fmt.Sprintf("the callback was called %d times, expected twice (header, header+payload)", len(cp.msgs)))
				return
			}
			if !bytes.Equal(cp.msgs[0], hdr) || !bytes.Equal(cp.msgs[1], all) {
				differ("rpm", in, fmt.Sprintf("callback received %d and %d bytes; shipped header is %d bytes, header++payload %d bytes; contents differ", len(cp.msgs[0]), len(cp.msgs[1]), len(hdr), len(all)))
			}
			if !bytes.Equal(hs, cp.blobs[0]) || !bytes.Equal(as, cp.blobs[1]) {
				notVerbatim("rpm", in, fmt.Sprintf("tag 268 holds %d bytes (answer 1: %d), tag 1002 holds %d bytes (answer 2: %d)", len(hs), len(cp.blobs[0]), len(as), len(cp.blobs[1])))
			}
			if real {
				x.checkPGP(famName, "rpm:header-", "callback-made tag 268", hdr, hs, false, "", in)
				x.checkPGP(famName, "rpm:header+payload-", "callback-made tag 1002", all, as, false, "", in)
			}
		case "apk":
			mk := fixed
			if real {
				mk = func(dg []byte) ([]byte, error) { return rsa.SignPKCS1v15(rand.Reader, x.cbRSA, crypto.SHA1, dg) }
			}
			nm := c10ApkNames[r.Intn(len(c10ApkNames))]
			desc["maintainer"], desc["apk.signature"] = nm.Maintainer, map[string]any{"key_name": nm.KeyName}
			s := c10derive(base, desc, func(info *nfpm.Info) {
				if nm.Maintainer != "" {
					info.Maintainer = nm.Maintainer
				}
				info.APK.Signature.KeyName = nm.KeyName
				info.APK.Signature.SignFn = cp.signFn(mk)
				if withKey {
					info.APK.Signature.KeyFile = x.key("rsa_unprotected.priv")
				}
			})
			dec, in, ok := x.build(fam, famName, "apk", "apk:", s, kind+"|"+answer)
			if !ok {
				return
			}
			sig, ok := x.apkSig(famName, dec, nm.Want, in)
			if !ok {
				return
			}
			if len(cp.msgs) != 1 {
				differ("apk", in, fmt.Sprintf("the callback was called %d times, expected once", len(cp.msgs)))
				return
			}
			dg := sha1.Sum(dec.Apk.Segments[1].Raw)
			if !bytes.Equal(cp.msgs[0], dg[:]) {
				differ("apk", in, fmt.Sprintf("callback received %x, SHA-1 of the control segment as shipped is %x", cp.msgs[0], dg))
			}
			if !bytes.Equal(sig, cp.blobs[0]) {
				notVerbatim("apk", in, fmt.Sprintf(".SIGN entry body (%d bytes) is not the callback's answer (%d bytes)", len(sig), len(cp.blobs[0])))
			}
			if real {
				x.apkVerify(famName, dec, sig, x.rsaPub["rsa_unprotected.pub"], in)
			}
		}
		if len(fam.Samples) < 3 && len(cp.msgs) > 0 {
			var lens []int
			for _, m := range cp.msgs {
				lens = append(lens, len(m))
			}
			fam.Sample(map[string]any{"kind": kind, "answer": answer, "callback_message_lengths": lens})
		}
	})
}

// ---- failures ----

type c10fail struct {
	Format, Case string // Case of deb carries the method as a suffix in the distribution only
	Sub          string
	Injected     bool
	Desc         map[string]any
	Mut          func(*nfpm.Info, *int)
}

func (x *c10env) failureCases(garbage string) []c10fail {
	failing := func(calls *int) func(io.Reader) ([]byte, error) {
		return func(r io.Reader) ([]byte, error) {
			*calls++
			_, _ = io.Copy(io.Discard, r)
			return nil, errC10Injected
		}
	}
	// a signer that fails once (a signing service that is briefly unavailable) and would answer a second call: the data it
	// was handed is a stream that is read once, so a second call cannot sign the bytes the verifier checks – the failure
	// has to surface
	failingOnce := func(calls *int) func(io.Reader) ([]byte, error) {
		return func(r io.Reader) ([]byte, error) {
			*calls++
			_, _ = io.Copy(io.Discard, r)
			if *calls == 1 {
				return nil, errC10Injected
			}
			return []byte("-----BEGIN PGP SIGNATURE-----\n\nsecond call\n-----END PGP SIGNATURE-----\n"), nil
		}
	}
	var cs []c10fail
	for _, method := range []string{"debsign", "dpkg-sig"} {
		method := method
		deb := func(name string, injected bool, desc map[string]any, f func(*nfpm.Info, *int)) {
			desc["method"] = method
			cs = append(cs, c10fail{"deb", name, "/" + method, injected, map[string]any{"deb.signature": desc}, func(info *nfpm.Info, calls *int) {
				info.Deb.Signature.Method = method
				f(info, calls)
			}})
		}
		deb("signfn-error", true, map[string]any{"sign_fn": "returns injected error"}, func(i *nfpm.Info, n *int) { i.Deb.Signature.SignFn = failing(n) })
		deb("signfn-fails-once", true, map[string]any{"sign_fn": "returns the injected error on the first call, a signature on any later call"}, func(i *nfpm.Info, n *int) { i.Deb.Signature.SignFn = failingOnce(n) })
		deb("missing-key-file", false, map[string]any{"key_file": "/does/not/exist"}, func(i *nfpm.Info, _ *int) { i.Deb.Signature.KeyFile = "/does/not/exist" })
		deb("garbage-key-file", false, map[string]any{"key_file": "<256 random bytes>"}, func(i *nfpm.Info, _ *int) { i.Deb.Signature.KeyFile = garbage })
		deb("public-key-as-key-file", false, map[string]any{"key_file": "pubkey.asc"}, func(i *nfpm.Info, _ *int) { i.Deb.Signature.KeyFile = x.key("pubkey.asc") })
		deb("wrong-passphrase", false, map[string]any{"key_file": "privkey.asc", "passphrase": "password123"}, func(i *nfpm.Info, _ *int) {
			i.Deb.Signature.KeyFile, i.Deb.Signature.KeyPassphrase = x.key("privkey.asc"), "password123"
		})
		deb("no-passphrase", false, map[string]any{"key_file": "privkey.gpg", "passphrase": ""}, func(i *nfpm.Info, _ *int) { i.Deb.Signature.KeyFile = x.key("privkey.gpg") })
		deb("bad-key-id", false, map[string]any{"key_file": "privkey_unprotected.asc", "key_id": "not-hex"}, func(i *nfpm.Info, _ *int) {
			i.Deb.Signature.KeyFile, i.Deb.Signature.KeyID = x.key("privkey_unprotected.asc"), c10ptr("not-hex")
		})
	}
	bogusT := func(typ, name string, desc map[string]any, f func(*nfpm.Info, *int)) {
		desc["method"], desc["type"] = "debsign", typ
		cs = append(cs, c10fail{"deb", name, "/debsign", false, map[string]any{"deb.signature": desc}, func(info *nfpm.Info, calls *int) {
			info.Deb.Signature.Type = typ
			f(info, calls)
		}})
	}
	bogus := func(name string, desc map[string]any, f func(*nfpm.Info, *int)) { bogusT("bogus", name, desc, f) }
	// `builder` is the role dpkg-sig signs with by default; debsign knows origin, maint and archive only
	bogusT("builder", "dpkg-sig-role-as-debsign-type", map[string]any{"key_file": "privkey_unprotected.asc"}, func(i *nfpm.Info, _ *int) { i.Deb.Signature.KeyFile = x.key("privkey_unprotected.asc") })
	bogus("bogus-type", map[string]any{"key_file": "privkey_unprotected.asc"}, func(i *nfpm.Info, _ *int) { i.Deb.Signature.KeyFile = x.key("privkey_unprotected.asc") })
	bogus("bogus-type-signfn", map[string]any{"sign_fn": "returns a blob"}, func(i *nfpm.Info, n *int) {
		i.Deb.Signature.SignFn = func(r io.Reader) ([]byte, error) { *n++; return []byte("sig"), nil }
	})

	rpm := func(name string, injected bool, desc map[string]any, f func(*nfpm.Info, *int)) {
		cs = append(cs, c10fail{"rpm", name, "", injected, map[string]any{"rpm.signature": desc}, f})
	}
	rpm("signfn-error", true, map[string]any{"sign_fn": "returns injected error"}, func(i *nfpm.Info, n *int) { i.RPM.Signature.SignFn = failing(n) })
	rpm("signfn-fails-once", true, map[string]any{"sign_fn": "returns the injected error on the first call, a signature on any later call"}, func(i *nfpm.Info, n *int) { i.RPM.Signature.SignFn = failingOnce(n) })
	rpm("missing-key-file", false, map[string]any{"key_file": "/does/not/exist"}, func(i *nfpm.Info, _ *int) { i.RPM.Signature.KeyFile = "/does/not/exist" })
	rpm("garbage-key-file", false, map[string]any{"key_file": "<256 random bytes>"}, func(i *nfpm.Info, _ *int) { i.RPM.Signature.KeyFile = garbage })
	rpm("public-key-as-key-file", false, map[string]any{"key_file": "pubkey.asc"}, func(i *nfpm.Info, _ *int) { i.RPM.Signature.KeyFile = x.key("pubkey.asc") })
	rpm("wrong-passphrase", false, map[string]any{"key_file": "privkey.asc", "passphrase": "password123"}, func(i *nfpm.Info, _ *int) {
		i.RPM.Signature.KeyFile, i.RPM.Signature.KeyPassphrase = x.key("privkey.asc"), "password123"
	})
	rpm("no-passphrase", false, map[string]any{"key_file": "privkey.gpg", "passphrase": ""}, func(i *nfpm.Info, _ *int) { i.RPM.Signature.KeyFile = x.key("privkey.gpg") })
	rpm("bad-key-id", false, map[string]any{"key_file": "privkey_unprotected.asc", "key_id": "not-hex"}, func(i *nfpm.Info, _ *int) {
		i.RPM.Signature.KeyFile, i.RPM.Signature.KeyID = x.key("privkey_unprotected.asc"), c10ptr("not-hex")
	})

	apk := func(name string, injected bool, desc map[string]any, f func(*nfpm.Info, *int)) {
		cs = append(cs, c10fail{"apk", name, "", injected, map[string]any{"apk.signature": desc}, f})
	}
	apk("signfn-error", true, map[string]any{"sign_fn": "returns injected error"}, func(i *nfpm.Info, n *int) { i.APK.Signature.SignFn = failing(n) })
	apk("signfn-fails-once", true, map[string]any{"sign_fn": "returns the injected error on the first call, a signature on any later call"}, func(i *nfpm.Info, n *int) { i.APK.Signature.SignFn = failingOnce(n) })
	apk("missing-key-file", false, map[string]any{"key_file": "/does/not/exist"}, func(i *nfpm.Info, _ *int) { i.APK.Signature.KeyFile = "/does/not/exist" })
	apk("garbage-key-file", false, map[string]any{"key_file": "<256 random bytes>"}, func(i *nfpm.Info, _ *int) { i.APK.Signature.KeyFile = garbage })
	apk("wrong-key-format", false, map[string]any{"key_file": "wrong_key_format.priv"}, func(i *nfpm.Info, _ *int) { i.APK.Signature.KeyFile = x.key("wrong_key_format.priv") })
	// a PEM private key that is not an RSA key (PKCS#8 ECDSA P-256, generated here): apk signatures are RSA
	// PKCS#1 v1.5 over SHA-1, stored as .SIGN.RSA.*: any other key cannot make one
	ecdsaKey := filepath.Join(filepath.Dir(garbage), "c10-ecdsa-pkcs8.priv")
	if k, kerr := ecdsa.GenerateKey(elliptic.P256(), rand.Reader); kerr == nil {
		if der, derr := x509.MarshalPKCS8PrivateKey(k); derr == nil {
			_ = os.WriteFile(ecdsaKey, pem.EncodeToMemory(&pem.Block{Type: "PRIVATE KEY", Bytes: der}), 0o600)
			apk("not-an-rsa-key", false, map[string]any{"key_file": "<PKCS#8 ECDSA P-256 key generated by the harness>"}, func(i *nfpm.Info, _ *int) { i.APK.Signature.KeyFile = ecdsaKey })
		}
	}
	apk("wrong-passphrase", false, map[string]any{"key_file": "rsa.priv", "passphrase": "password123"}, func(i *nfpm.Info, _ *int) {
		i.APK.Signature.KeyFile, i.APK.Signature.KeyPassphrase = x.key("rsa.priv"), "password123"
	})
	apk("no-passphrase", false, map[string]any{"key_file": "rsa.priv", "passphrase": ""}, func(i *nfpm.Info, _ *int) { i.APK.Signature.KeyFile = x.key("rsa.priv") })
	apk("no-key-name-no-maintainer-address", false, map[string]any{"key_file": "rsa_unprotected.priv", "key_name": "", "maintainer": "nobody"}, func(i *nfpm.Info, _ *int) {
		i.APK.Signature.KeyFile, i.Maintainer = x.key("rsa_unprotected.priv"), "nobody"
	})
	return cs
}

func (x *c10env) failuresFamily() {
	c := x.c
	const famName = "failures"
	fam := c.Rep.Family(famName, "signing that must fail, per format (deb under both methods): SignFn returning a sentinel error; missing, garbage, public-only and wrong-format key files; wrong and missing passphrase of a protected key; unparsable key_id; deb signature type 'bogus' with debsign (key file and SignFn); apk without key name and maintainer address. Package must return an error, errors.As(err, *nfpm.ErrSigningFailure) must hold, and the sentinel must be reachable with errors.Is; the whole list is run on several payload specs; non-trivial = Package was called")
	fam.Exhaustive = true
	garbage := filepath.Join(c.Tmp, "c10-garbage.key")
	gb := make([]byte, 256)
	for i := range gb {
		gb[i] = byte(i*37 + 200) // includes bytes > 0x7f: read as a binary keyring
	}
	if err := os.WriteFile(garbage, gb, 0o600); err != nil {
		c.Rep.Note("C10: cannot write garbage key: %v", err)
		return
	}
	cases := x.failureCases(garbage)
	nspec := c.N(2, 12)
	if nspec > len(x.specs) {
		nspec = len(x.specs)
	}
	for si := 0; si < nspec; si++ {
		for _, fc := range cases {
			fc := fc
			calls := 0
			s := c10derive(x.specs[si], fc.Desc, func(info *nfpm.Info) { fc.Mut(info, &calls) })
			in := s.Input()
			in["format"], in["case"] = fc.Format, fc.Case
			data, err := BuildPkg(fc.Format, s.Info())
			fam.Eval(fmt.Sprintf("%v", in), true)
			fam.Count(fc.Format + fc.Sub + ":" + fc.Case)
			if err == nil {
				c.Rep.Find(report.Finding{Property: "C10", Family: famName, Shape: fc.Format + ":no-error-on-signing-failure",
					What: fmt.Sprintf("case %s: Package returned nil and %d package bytes although signing cannot succeed (callback calls: %d)", fc.Case, len(data), calls), Input: in})
				continue
			}
			if fc.Injected && calls == 0 {
				c.Rep.Note("C10 failures: %s/%s failed before the callback was called: %v", fc.Format, fc.Case, err)
			}
			var sf *nfpm.ErrSigningFailure
			if !errors.As(err, &sf) {
				c.Rep.Find(report.Finding{Property: "C10", Family: famName, Shape: fc.Format + ":not-a-signing-failure:" + fc.Case,
					What: fmt.Sprintf("errors.As(err, *nfpm.ErrSigningFailure) is false; error chain: %s", c10chain(err)), Input: in})
			}
			if fc.Injected && !errors.Is(err, errC10Injected) {
				c.Rep.Find(report.Finding{Property: "C10", Family: famName, Shape: fc.Format + ":signer-error-not-wrapped",
					What: fmt.Sprintf("errors.Is(err, <the error the callback returned>) is false although the message contains it; error chain: %s", c10chain(err)), Input: in})
			}
			if len(fam.Samples) < 4 && (fc.Injected || fc.Case == "bogus-type") {
				fam.Sample(map[string]any{"format": fc.Format, "case": fc.Case, "error": err.Error(), "chain": c10chain(err)})
			}
		}
	}
}

// keyFileChangesFamily: the key file is read at every packaging.  One path, whose content changes between builds of
// one process: key A, a different key B, garbage, removed, key A again.  Every build must sign with the key the file
// holds at that moment (issuer of the signature, verification with that key's public half) or fail as a signing
// failure when the file holds no key.
func (x *c10env) keyFileChangesFamily() {
	c := x.c
	const famName = "key-file-changes-between-builds"
	fam := c.Rep.Family(famName, "exhaustive: one key file path whose content changes between packagings in one process - key A (testdata, unprotected), a freshly generated key B, 256 random bytes, file removed, key A again - x {deb debsign, rpm}: the signature's issuer and its verification must follow the key the file holds at that moment; with no key in the file packaging must fail with a signing failure; non-trivial = always")
	fam.Exhaustive = true
	keyA, err := os.ReadFile(x.key("privkey_unprotected.asc"))
	if err != nil {
		c.Rep.Note("%s: %v", famName, err)
		return
	}
	entB, err := openpgp.NewEntity("verif key B", "", "b@example.com", nil)
	if err != nil {
		c.Rep.Note("%s: cannot generate key B: %v", famName, err)
		return
	}
	var bufB bytes.Buffer
	if aw, err := armor.Encode(&bufB, openpgp.PrivateKeyType, nil); err == nil {
		_ = entB.SerializePrivate(aw, nil)
		_ = aw.Close()
	}
	ringA := x.rings[0]
	ringB := openpgp.EntityList{entB}
	gb := make([]byte, 256)
	for i := range gb {
		gb[i] = byte(i*7 + 3)
	}
	type step struct {
		name    string
		content []byte // nil = remove the file
		ring    openpgp.EntityList
	}
	steps := []step{{"key A", keyA, ringA}, {"key B", bufB.Bytes(), ringB}, {"garbage", gb, nil}, {"removed", nil, nil}, {"key A again", keyA, ringA}, {"key B again", bufB.Bytes(), ringB}}
	for _, format := range []string{"deb", "rpm"} {
		p := filepath.Join(c.Tmp, "rotating-key-"+format+".asc")
		for _, st := range steps {
			if st.content == nil {
				_ = os.Remove(p)
			} else if err := os.WriteFile(p, st.content, 0o600); err != nil {
				c.Rep.Note("%s: %v", famName, err)
				return
			}
			s := c10derive(x.specs[0], map[string]any{format + ".signature": map[string]any{"key_file": "<one path>", "file_holds": st.name}}, func(info *nfpm.Info) {
				if format == "deb" {
					info.Deb.Signature.KeyFile = p
				} else {
					info.RPM.Signature.KeyFile = p
				}
			})
			in := s.Input()
			in["format"], in["key_file_holds"] = format, st.name
			data, berr := BuildPkg(format, s.Info())
			fam.Eval(format+"|"+st.name, true)
			fam.Count(format + ":" + st.name)
			if st.ring == nil {
				var sf *nfpm.ErrSigningFailure
				switch {
				case berr == nil:
					c.Rep.Find(report.Finding{Property: "C10", Family: famName, Shape: format + ":signed-with-a-key-the-file-no-longer-holds",
						What: fmt.Sprintf("the key file holds no key (%s), yet Package returned nil and %d bytes", st.name, len(data)), Input: in})
				case !errors.As(berr, &sf):
					c.Rep.Find(report.Finding{Property: "C10", Family: famName, Shape: format + ":not-a-signing-failure:" + st.name,
						What: "errors.As(err, *nfpm.ErrSigningFailure) is false; error chain: " + c10chain(berr), Input: in})
				}
				continue
			}
			if berr != nil {
				c.Rep.Find(report.Finding{Property: "C10", Family: famName, Shape: format + ":signed-build-error",
					What: fmt.Sprintf("the key file holds %s, packaging fails: %v", st.name, berr), Input: in})
				continue
			}
			dec, derr := DecodePkg(format, data)
			if derr != nil {
				c.Rep.Note("%s: decode: %v", famName, derr)
				continue
			}
			var msg, sig []byte
			armored := false
			if format == "deb" {
				var ok bool
				if sig, ok = x.debSigMember(famName, "debsign", dec, "_gpgorigin", in); !ok {
					continue
				}
				msg, armored = c10cat(dec.Deb.DebianBinary, dec.Deb.ControlRaw, dec.Deb.DataRaw), true
			} else {
				hs, _, ok := x.rpmSigs(famName, dec, in)
				if !ok {
					continue
				}
				msg, sig = dec.Rpm.HeaderRaw, hs
			}
			var verr error
			if armored {
				_, verr = openpgp.CheckArmoredDetachedSignature(st.ring, bytes.NewReader(msg), bytes.NewReader(sig), nil)
			} else {
				_, verr = openpgp.CheckDetachedSignature(st.ring, bytes.NewReader(msg), bytes.NewReader(sig), nil)
			}
			if verr != nil {
				issuer, _ := c10issuer(sig, armored)
				c.Rep.Find(report.Finding{Property: "C10", Family: famName, Shape: format + ":signature-not-made-with-the-key-the-file-holds",
					What: fmt.Sprintf("the key file holds %s; the signature (issuer %x) does not verify with that key's public half: %v", st.name, issuer, verr), Input: in})
			}
		}
		_ = os.Remove(p)
	}
}

// c10chain renders the Unwrap chain of an error with the dynamic types.
func c10chain(err error) string {
	var parts []string
	for e := err; e != nil; e = errors.Unwrap(e) {
		parts = append(parts, fmt.Sprintf("%T(%q)", e, e.Error()))
		if len(parts) > 8 {
			break
		}
	}
	return strings.Join(parts, " -> ")
}

// ---- plumbing ----

// sweep runs f over the case matrix 0..n-1: every spec gets `per` consecutive
// matrix points, so the matrix is covered ceil(len(specs)*per/n) times.
func (x *c10env) sweep(n, per int, f func(base *PkgSpec, k int)) {
	total := len(x.specs) * per
	if total < n {
		total = n
	}
	for i := 0; i < total; i++ {
		f(x.specs[(i/per)%len(x.specs)], i%n)
	}
}

// gpgCrossCheck asks GnuPG, when installed, for its verdict on one debsign signature. Never a finding.
func (x *c10env) gpgCrossCheck(msg, sig []byte) {
	gpg, err := exec.LookPath("gpg")
	if err != nil {
		x.c.Rep.Note("C10 gpg cross-check: gpg not on PATH, skipped")
		return
	}
	home := filepath.Join(x.c.Tmp, "gh")
	if err := os.MkdirAll(home, 0o700); err != nil {
		x.c.Rep.Note("C10 gpg cross-check: %v", err)
		return
	}
	mp, sp := filepath.Join(home, "message.bin"), filepath.Join(home, "message.bin.asc")
	_ = os.WriteFile(mp, msg, 0o600)
	_ = os.WriteFile(sp, sig, 0o600)
	run := func(args ...string) (string, error) {
		cmd := exec.Command(gpg, append([]string{"--homedir", home, "--batch", "--no-tty", "--no-autostart", "--trust-model", "always"}, args...)...)
		cmd.Env = append(os.Environ(), "GNUPGHOME="+home, "LC_ALL=C")
		out, err := cmd.CombinedOutput()
		return string(out), err
	}
	if out, err := run("--import", x.key("pubkey.asc")); err != nil {
		x.c.Rep.Note("C10 gpg cross-check: import of pubkey.asc failed (%v): %s", err, c10oneLine(out))
		return
	}
	out, err := run("--verify", sp, mp)
	verdict := "GOOD"
	if err != nil {
		verdict = "NOT VERIFIED (" + err.Error() + ")"
	}
	_ = os.WriteFile(mp, c10flip(msg), 0o600)
	_, err2 := run("--verify", sp, mp)
	x.c.Rep.Note("C10 gpg cross-check of one debsign signature over debian-binary++control++data (%d bytes): %s; perturbed message rejected: %v; gpg said: %s", len(msg), verdict, err2 != nil, c10oneLine(out))
}

func c10oneLine(s string) string {
	s = strings.Join(strings.Fields(s), " ")
	if len(s) > 300 {
		s = s[:300] + "…"
	}
	return s
}

func (x *c10env) load() error {
	for _, n := range []string{"pubkey.asc", "pubkey.gpg"} {
		b, err := os.ReadFile(x.key(n))
		if err != nil {
			return err
		}
		var ring openpgp.EntityList
		if strings.HasSuffix(n, ".asc") {
			ring, err = openpgp.ReadArmoredKeyRing(bytes.NewReader(b))
		} else {
			ring, err = openpgp.ReadKeyRing(bytes.NewReader(b))
		}
		if err != nil {
			return fmt.Errorf("%s: %w", n, err)
		}
		x.rings, x.ringName = append(x.rings, ring), append(x.ringName, n)
	}
	x.rsaPub = map[string]*rsa.PublicKey{}
	for _, k := range c10RSAKeys {
		b, err := os.ReadFile(x.key(k.Pub))
		if err != nil {
			return err
		}
		blk, _ := pem.Decode(b)
		if blk == nil {
			return fmt.Errorf("%s: no PEM block", k.Pub)
		}
		pk, err := x509.ParsePKIXPublicKey(blk.Bytes)
		if err != nil {
			return fmt.Errorf("%s: %w", k.Pub, err)
		}
		rp, ok := pk.(*rsa.PublicKey)
		if !ok {
			return fmt.Errorf("%s: not an RSA key", k.Pub)
		}
		x.rsaPub[k.Pub] = rp
	}
	// callback primitives: unprotected keys read without nfpm
	b, err := os.ReadFile(x.key("privkey_unprotected.asc"))
	if err != nil {
		return err
	}
	ring, err := openpgp.ReadArmoredKeyRing(bytes.NewReader(b))
	if err != nil || len(ring) != 1 || ring[0].PrivateKey == nil {
		return fmt.Errorf("privkey_unprotected.asc: %v (%d entities)", err, len(ring))
	}
	x.cbEntity = ring[0]
	b, err = os.ReadFile(x.key("rsa_unprotected.priv"))
	if err != nil {
		return err
	}
	blk, _ := pem.Decode(b)
	if blk == nil {
		return errors.New("rsa_unprotected.priv: no PEM block")
	}
	x.cbRSA, err = x509.ParsePKCS1PrivateKey(blk.Bytes)
	return err
}

func runC10(c *Ctx) error {
	tree, err := MkTree(filepath.Join(c.Tmp, "src"), 0)
	if err != nil {
		return err
	}
	x := &c10env{c: c, td: filepath.Join(c.Repo, "internal", "sign", "testdata")}
	if err := x.load(); err != nil {
		return fmt.Errorf("C10 key material: %w", err)
	}
	r := c.R.Fork("c10")
	// payload specs that build unsigned in all three signing formats
	want, tried, rejected := c.N(8, 150), 0, 0
	for len(x.specs) < want && tried < want*6 {
		tried++
		s := genPkgSpec(r, tree)
		s.MTime = 1700000000
		ok := true
		for _, f := range []string{"deb", "rpm", "apk"} {
			if _, err := BuildPkg(f, s.Info()); err != nil {
				ok = false
				break
			}
		}
		if !ok {
			rejected++
			continue
		}
		x.specs = append(x.specs, s)
	}
	if len(x.specs) == 0 {
		return errors.New("C10: no payload spec builds unsigned")
	}
	c.Rep.Note("C10: %d payload specs (of %d generated; %d rejected because they do not build unsigned in deb, rpm and apk)", len(x.specs), tried, rejected)
	x.debsignFamily()
	x.dpkgSigFamily()
	x.rpmFamily()
	x.apkFamily()
	x.callbacksFamily(r.Fork("callbacks"))
	x.failuresFamily()
	x.keyFileChangesFamily()
	// the same key-file families with SOURCE_DATE_EPOCH set to a date older than every key (reproducible builds of an
	// old commit with a newer key): the package time follows it, the signature must still be made and verify
	x.sde = "946684800"
	_ = os.Setenv("SOURCE_DATE_EPOCH", x.sde)
	x.debsignFamily()
	x.dpkgSigFamily()
	x.rpmFamily()
	x.apkFamily()
	_ = os.Unsetenv("SOURCE_DATE_EPOCH")
	x.sde = ""
	c10KeyIDThroughConfiguration(c)
	c10SigningThroughEnvMapping(c)
	c10RotatedSubkeys(c)
	return nil
}
