package props

import (
	"fmt"
	"os"
	"path/filepath"
	"reflect"
	"sort"
	"strconv"
	"strings"

	"github.com/goreleaser/nfpm/v2"
	"verif/harness/internal/wire"
)

// ScriptSelectors lists, by reflection over nfpm.Info, every string field of the structs that hold script paths
// (Scripts, Deb.Scripts, RPM.Scripts, APK.Scripts, ArchLinux.Scripts, …): "Scripts.PreInstall", "Deb.Scripts.Rules".
func ScriptSelectors() []string {
	var out []string
	var walk func(t reflect.Type, path string, inScripts bool)
	walk = func(t reflect.Type, path string, inScripts bool) {
		if t.Kind() == reflect.Ptr {
			t = t.Elem()
		}
		if t.Kind() != reflect.Struct || t.String() == "time.Time" {
			return
		}
		for i := 0; i < t.NumField(); i++ {
			f := t.Field(i)
			if f.PkgPath != "" {
				continue
			}
			p := f.Name
			if path != "" {
				p = path + "." + f.Name
			}
			if f.Anonymous {
				p = path
			}
			scripts := inScripts || strings.HasSuffix(f.Name, "Scripts")
			switch f.Type.Kind() {
			case reflect.String:
				if inScripts {
					out = append(out, p)
				}
			case reflect.Struct, reflect.Ptr:
				walk(f.Type, p, scripts)
			}
		}
	}
	walk(reflect.TypeOf(nfpm.Info{}), "", false)
	sort.Strings(out)
	return out
}

func setScriptByPath(info *nfpm.Info, sel, path string) bool {
	v := reflect.ValueOf(info).Elem()
	for _, part := range strings.Split(sel, ".") {
		if v.Kind() == reflect.Ptr {
			if v.IsNil() {
				v.Set(reflect.New(v.Type().Elem()))
			}
			v = v.Elem()
		}
		v = v.FieldByName(part)
		if !v.IsValid() {
			return false
		}
	}
	if v.Kind() != reflect.String || !v.CanSet() {
		return false
	}
	v.SetString(path)
	return true
}

var rpmScriptTagNames = map[string]string{"1023": "AddPrein", "1024": "AddPostin", "1025": "AddPreun", "1026": "AddPostun",
	"1079": "AddVerifyScript", "1151": "AddPretrans", "1152": "AddPosttrans"}

// TabulateScriptSlots builds, for every format and every script selector alone, a package whose only script is a
// marker, decodes it with the independent readers and records which slot holds the marker and with what mode:
// rows (slot, selector, mode) per format – the script wiring of today's code, found by running it.
func TabulateScriptSlots(tmp string) (map[string][][3]string, error) {
	if err := os.MkdirAll(tmp, 0o755); err != nil {
		return nil, err
	}
	tool := filepath.Join(tmp, "tool")
	if err := os.WriteFile(tool, []byte("#!/bin/sh\n"), 0o755); err != nil {
		return nil, err
	}
	res := map[string][][3]string{}
	for _, f := range Formats {
		for k, sel := range ScriptSelectors() {
			marker := fmt.Sprintf("#!/bin/sh\necho VERIF-MARKER-%d\n", k)
			p := filepath.Join(tmp, fmt.Sprintf("script-%d", k))
			if err := os.WriteFile(p, []byte(marker), 0o644); err != nil {
				return nil, err
			}
			s := &PkgSpec{Raw: []wire.Content{{Src: tool, Dst: "/usr/bin/tool"}}, Umask: 0o022, MTime: 1700000000}
			info := s.Info()
			if !setScriptByPath(info, sel, p) {
				return nil, fmt.Errorf("cannot set %s", sel)
			}
			data, err := BuildPkg(f, info)
			if err != nil {
				return nil, fmt.Errorf("%s with only %s set does not build: %v", f, sel, err)
			}
			dec, err := DecodePkg(f, data)
			if err != nil {
				return nil, fmt.Errorf("%s with only %s set: %v", f, sel, err)
			}
			slots, modes := observedSlots(dec)
			for _, sb := range slots {
				if !strings.Contains(sb.Body, fmt.Sprintf("VERIF-MARKER-%d", k)) {
					continue
				}
				name := sb.Slot
				mode := "0"
				if f == "rpm" {
					if n, ok := rpmScriptTagNames[name]; ok {
						name = n
					}
				} else if m, ok := modes[sb.Slot]; ok {
					mode = "0o" + strconv.FormatInt(m, 8)
				}
				res[f] = append(res[f], [3]string{name, sel, mode})
			}
		}
		sort.Slice(res[f], func(i, j int) bool { return res[f][i][0] < res[f][j][0] })
	}
	return res, nil
}
