package props

import (
	"bytes"
	"context"
	"crypto/sha256"
	"encoding/hex"
	"encoding/json"
	"fmt"
	"os"
	"os/exec"
	"path/filepath"
	"runtime"
	"strconv"
	"sync"
	"time"

	"github.com/goreleaser/nfpm/v2"
	"verif/harness/internal/report"
)

func init() { Registry["C07conc"] = runC07Conc }

func c07BuildFromFile(cfgPath, f string) (sum string) {
	defer func() {
		if r := recover(); r != nil {
			sum = fmt.Sprintf("panic: %v", r)
		}
	}()
	cfg, err := nfpm.ParseFileWithEnvMapping(cfgPath, func(string) string { return "" })
	if err != nil {
		return "error: parse: " + err.Error()
	}
	info, err := cfg.Get(f)
	if err != nil {
		return "error: get: " + err.Error()
	}
	p, err := nfpm.Get(f)
	if err != nil {
		return "error: " + err.Error()
	}
	var buf bytes.Buffer
	if err := p.Package(nfpm.WithDefaults(info), &buf); err != nil {
		return "error: package: " + err.Error()
	}
	h := sha256.Sum256(buf.Bytes())
	return hex.EncodeToString(h[:])
}

// runC07Conc (child mode): the configuration file is packaged by several goroutines at once – every format twice per
// round, under three GOMAXPROCS values – and the digest of every result is written out. A crash of this process is the
// parent's finding.
func runC07Conc(c *Ctx) error {
	cfgPath, out := os.Getenv("C07_CFG"), os.Getenv("C07_OUT")
	res := map[string][]string{}
	var mu sync.Mutex
	old := runtime.GOMAXPROCS(0)
	defer runtime.GOMAXPROCS(old)
	for _, procs := range []int{1, 4, 16} {
		runtime.GOMAXPROCS(procs)
		var wg sync.WaitGroup
		start := make(chan struct{})
		for rep := 0; rep < 2; rep++ {
			for _, f := range Formats {
				wg.Add(1)
				go func(f string) {
					defer wg.Done()
					<-start
					s := c07BuildFromFile(cfgPath, f)
					mu.Lock()
					res[f] = append(res[f], s)
					mu.Unlock()
				}(f)
			}
		}
		close(start)
		wg.Wait()
	}
	b, _ := json.Marshal(res)
	return os.WriteFile(out, b, 0o644)
}

// c07ConcurrentBuilds: goroutine scheduling – packages built while other packagings run in the same process are the
// bytes a build on its own produces.
func c07ConcurrentBuilds(c *Ctx, cfgPath, cfgText string) {
	fam := c.Rep.Family("concurrent-builds", "the configuration file of the cross-process family packaged by ten goroutines at once (every format twice) under GOMAXPROCS 1, 4 and 16 in a child process of the harness; the digest of every package compared with the package this process builds on its own from the same file; a crash of the child is a finding; non-trivial = always")
	self, err := os.Executable()
	if err != nil {
		c.Rep.Note("concurrent-builds: %v", err)
		return
	}
	outp := filepath.Join(c.Tmp, "c07-conc.json")
	_ = os.Remove(outp)
	ctx, cancel := context.WithTimeout(context.Background(), 5*time.Minute)
	defer cancel()
	run := exec.CommandContext(ctx, self, "-prop", "C07conc", "-tier", c.Tier, "-seed", strconv.FormatUint(c.Seed, 10),
		"-out", filepath.Join(c.Tmp, "c07-conc-child.json"), "-driver", c12Driver, "-replays", filepath.Join(c.Tmp, "c07-conc-replays"), "-repo", c.Repo)
	run.Env = c12Env("C07_CFG="+cfgPath, "C07_OUT="+outp)
	var stderr bytes.Buffer
	run.Stderr = &stderr
	runErr := run.Run()
	in := map[string]any{"config_text": cfgText, "goroutines": 10, "gomaxprocs": []int{1, 4, 16}}
	b, rerr := os.ReadFile(outp)
	if rerr != nil {
		if ctx.Err() != nil {
			c.Rep.Note("concurrent-builds: child timed out")
			return
		}
		tail := stderr.String()
		if len(tail) > 1500 {
			tail = tail[:1500]
		}
		fam.Eval("child-crash", true)
		c.Rep.Find(report.Finding{Property: "C07", Family: "concurrent-builds", Shape: "rebuild-differs:concurrent-builds:process-dies",
			What: fmt.Sprintf("packaging the configuration from ten goroutines at once ends the process (%v): %s", runErr, tail), Input: in})
		return
	}
	var res map[string][]string
	if err := json.Unmarshal(b, &res); err != nil {
		c.Rep.Note("concurrent-builds: %v", err)
		return
	}
	for _, f := range Formats {
		want := c07BuildFromFile(cfgPath, f)
		for i, got := range res[f] {
			fam.Eval(fmt.Sprintf("%s|%d", f, i), true)
			fam.Count(f)
			if got != want {
				in2 := map[string]any{"format": f}
				for k, v := range in {
					in2[k] = v
				}
				c.Rep.Find(report.Finding{Property: "C07", Family: "concurrent-builds", Shape: f + ":rebuild-differs:concurrent-builds",
					What: fmt.Sprintf("the %s package built while nine other packagings run in the same process: %s; built on its own: %s", f, got, want), Input: in2})
				break
			}
		}
	}
}
