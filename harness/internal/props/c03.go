package props

// C03 (digests and sizes stored in a package match the payload actually
// shipped) and C04 (every package is a well-formed archive that independent
// readers accept) share one generator of packaging scenarios and one analyser
// of built packages.  Both live here; c04.go adds the families that belong to
// C04 alone (model of bufio.Writer, model of apk.writeTgz).
//
// The judge of everything that is a statement about digests, sizes, member
// order and member names is the executable Lean spec (Spec/DigestSpec.lean,
// Spec/ArchiveSpec.lean) reached through the driver.  The harness only
// decodes the real package with the independent readers, hashes the decoded
// bytes with the standard library, and reports what it found.

import (
	"archive/tar"
	"bytes"
	"compress/gzip"
	"context"
	"crypto/md5"
	"crypto/sha1"
	"crypto/sha256"
	"encoding/hex"
	"fmt"
	"io"
	"os"
	"os/exec"
	"path"
	"path/filepath"
	"runtime"
	"sort"
	"strconv"
	"strings"
	"sync"
	"sync/atomic"
	"time"

	"github.com/goreleaser/nfpm/v2"
	"verif/harness/decode"
	"verif/harness/internal/report"
	"verif/harness/internal/rng"
	"verif/harness/internal/wire"
)

func init() { Registry["C03"] = runC03 }

// ---------------------------------------------------------------------------
// environment: source tree with boundary files, scripts, changelog, keys, tools
// ---------------------------------------------------------------------------

type c34Env struct {
	c              *Ctx
	tree           *SrcTree
	td             string         // /repo/internal/sign/testdata
	exact          map[int]string // files of exactly n bytes
	bigRand        string         // larger than every compressor block in the quick tier (300 KiB, random)
	bigZero        string         // 300 KiB of zeros
	hugeRand       string         // thorough: 3 MiB random
	hugeZero       string         // thorough: 3 MiB zeros
	hugeOdd        string         // thorough: 1 MiB + 1 byte (one byte past the pgzip block)
	small          []string       // many small files
	frac           []string       // source files whose modification time has a sub-second part (.7, .3, .5 s)
	scripts        map[string]string
	changelog      string
	emptyChangelog string
	longChangelog  string
	dpkgDeb        string // path of dpkg-deb or ""
	xz             string // path of xz or ""
	seq            atomic.Int64
	segCap         int // apk segments larger than this are not sent through the Lean byte-list model
}

const c34Changelog = `---
- semver: 1.2.3
  date: 2021-03-04T05:06:07Z
  packager: Verif <verif@example.com>
  deb:
    urgency: medium
    distributions:
      - stable
  changes:
    - commit: 0123456789abcdef0123456789abcdef01234567
      note: "second entry"
    - note: "with a second note"
- semver: 1.0.0
  date: 2020-01-02T03:04:05Z
  packager: Verif <verif@example.com>
  changes:
    - note: "first entry"
`

func c34Setup(c *Ctx) (*c34Env, error) {
	// the properties quantify over mtime set and unset with SOURCE_DATE_EPOCH unset
	_ = os.Unsetenv("SOURCE_DATE_EPOCH")
	tree, err := MkTree(filepath.Join(c.Tmp, "src"), 0)
	if err != nil {
		return nil, err
	}
	e := &c34Env{c: c, tree: tree, td: filepath.Join(c.Repo, "internal", "sign", "testdata"), exact: map[int]string{},
		scripts: map[string]string{}, segCap: 1536 << 10}
	r := c.R.Fork("c34-files")
	dir := filepath.Join(c.Tmp, "c34")
	if err := os.MkdirAll(filepath.Join(dir, "small"), 0o755); err != nil {
		return nil, err
	}
	n := 0
	write := func(rel string, body []byte) (string, error) {
		p := filepath.Join(dir, rel)
		if err := os.WriteFile(p, body, 0o600); err != nil {
			return "", err
		}
		if err := os.Chmod(p, 0o644); err != nil {
			return "", err
		}
		mt := time.Unix(1600010000+int64(n), 0)
		n++
		return p, os.Chtimes(p, mt, mt)
	}
	random := func(k int) []byte {
		b := make([]byte, k)
		for i := 0; i < k; i += 8 {
			v := r.U64()
			for j := 0; j < 8 && i+j < k; j++ {
				b[i+j] = byte(v >> (8 * j))
			}
		}
		return b
	}
	for _, k := range []int{0, 1, 511, 512, 513, 1023, 1024, 1025, 4095, 4096, 4097} {
		if e.exact[k], err = write(fmt.Sprintf("exact-%d.bin", k), random(k)); err != nil {
			return nil, err
		}
	}
	if e.bigRand, err = write("big-random.bin", random(300<<10)); err != nil {
		return nil, err
	}
	if e.bigZero, err = write("big-zero.bin", make([]byte, 300<<10)); err != nil {
		return nil, err
	}
	if c.Thorough() {
		if e.hugeRand, err = write("huge-random.bin", random(3<<20)); err != nil {
			return nil, err
		}
		if e.hugeZero, err = write("huge-zero.bin", make([]byte, 3<<20)); err != nil {
			return nil, err
		}
		if e.hugeOdd, err = write("huge-odd.bin", random(1<<20+1)); err != nil {
			return nil, err
		}
	}
	for i := 0; i < c.N(40, 200); i++ {
		p, err := write(fmt.Sprintf("small/s%03d.txt", i), random(r.Intn(96)))
		if err != nil {
			return nil, err
		}
		e.small = append(e.small, p)
	}
	for i, ns := range []int64{700_000_000, 300_000_000, 500_000_000} {
		p, err := write(fmt.Sprintf("frac-%d.txt", i), []byte(fmt.Sprintf("mtime with a sub-second part of %d ns\n", ns)))
		if err != nil {
			return nil, err
		}
		mt := time.Unix(1600020000+int64(i), ns)
		if err := os.Chtimes(p, mt, mt); err != nil {
			return nil, err
		}
		e.frac = append(e.frac, p)
	}
	if e.changelog, err = write("changelog.yaml", []byte(c34Changelog)); err != nil {
		return nil, err
	}
	// a long history: the formatted changelog is several KiB larger than its gzip form, so an Installed-Size that
	// counted anything but the bytes shipped would be off by whole KiB
	var long strings.Builder
	long.WriteString("---\n")
	for i := 60; i >= 1; i-- {
		fmt.Fprintf(&long, "- semver: 1.%d.0\n  date: 2021-03-%02dT05:06:07Z\n  packager: Verif <verif@example.com>\n  changes:\n    - commit: %040x\n      note: \"release %d: the usual round of fixes and improvements\"\n    - note: \"and a second note for release %d\"\n", i, 1+i%28, i*7919, i, i)
	}
	if e.longChangelog, err = write("changelog-long.yaml", []byte(long.String())); err != nil {
		return nil, err
	}
	// a changelog file that exists and has no entry yet (a fresh `chglog init`)
	if e.emptyChangelog, err = write("changelog-empty.yaml", []byte("[]\n")); err != nil {
		return nil, err
	}
	seen := map[string]bool{}
	for _, f := range Formats {
		for _, sel := range scriptSelectors[f] {
			if seen[sel] {
				continue
			}
			seen[sel] = true
			p, err := write("script-"+sel+".sh", []byte("#!/bin/sh\necho "+sel+"\n"))
			if err != nil {
				return nil, err
			}
			e.scripts[sel] = p
		}
	}
	e.dpkgDeb, _ = exec.LookPath("dpkg-deb")
	e.xz, _ = exec.LookPath("xz")
	return e, nil
}

func (e *c34Env) key(name string) string { return filepath.Join(e.td, name) }

// ---------------------------------------------------------------------------
// shared generator of packaging scenarios
// ---------------------------------------------------------------------------

// c34Case is one scenario for one format.
type c34Case struct {
	S         *PkgSpec
	Format    string
	Class     string // payload class the generator aimed at
	Label     string // family fork label and index: enough to regenerate the case from the seed
	MustBuild bool   // the configuration is valid by construction: a build error is a finding
	// Clock makes the wall clock an explicit input of scenarios with info.MTime unset: "low" builds while
	// the sub-second part of the clock is below 0.35 s, "high" while it is above 0.6 s, "" whenever.
	Clock string
}

// c34AwaitClock sleeps (at most a second) until the sub-second part of the wall clock is in the requested window.
func c34AwaitClock(which string) {
	for i := 0; i < 400; i++ {
		ms := time.Now().Nanosecond() / 1e6
		switch {
		case which == "low" && ms < 300, which == "high" && ms >= 600 && ms < 900, which == "":
			return
		}
		time.Sleep(5 * time.Millisecond)
	}
}

var (
	c34RpmCompressions = []string{"", "gzip", "gzip:1", "gzip:9", "gzip:-1", "xz", "lzma", "zstd", "zstd:1", "zstd:19", "zstd:fastest"}
	// the key variants c10 marks as problematic (signing subkey only: dpkg-sig cannot use them) are left out
	c34PGPKeys = []c10PGPKey{c10PGPKeys[0], c10PGPKeys[1], c10PGPKeys[2], c10PGPKeys[3], c10PGPKeys[5], c10PGPKeys[6], c10PGPKeys[7], c10PGPKeys[8]}
)

type c34Payload struct {
	Class string
	Raw   []wire.Content
}

func c34File(src, dst string) wire.Content { return wire.Content{Src: src, Dst: dst} }

// boundaryPayloads: the corner cases the quantifier of C03/C04 names explicitly.
func (e *c34Env) boundaryPayloads() []c34Payload {
	t := e.tree.Root
	j := func(rel string) string { return filepath.Join(t, rel) }
	ps := []c34Payload{
		{"fractional-source-mtime", []wire.Content{c34File(e.frac[0], "/usr/share/frac/f7"), c34File(e.frac[1], "/usr/share/frac/f3"), c34File(e.frac[2], "/usr/share/frac/f5")}},
		{"empty", nil},
		{"only-dirs", []wire.Content{{Dst: "/var/lib/app/", Type: "dir"}, {Dst: "/b/", Type: "dir"}, {Dst: "/a/x/", Type: "dir"},
			{Dst: "/opt/app/deep/er", Type: "dir", Info: &wire.FileInfo{Mode: 0o750, Owner: "app", Group: "app", MTime: wire.ZeroTime}}}},
		{"only-symlinks", []wire.Content{{Src: "/usr/bin/env", Dst: "/usr/bin/l0", Type: "symlink"}, {Src: "../lib/x", Dst: "/a/l", Type: "symlink"},
			{Src: "rel target", Dst: "/opt/app/l 2", Type: "symlink"}}},
		{"empty-files", []wire.Content{c34File(j("share/empty"), "/usr/share/app/empty"), c34File(e.exact[0], "/e/0")}},
		{"single-char-dirs", []wire.Content{c34File(j("bin/tool"), "/a/x"), c34File(j("etc/app.conf"), "/b/c/d"), {Dst: "/c/", Type: "dir"},
			{Src: "/a/x", Dst: "/d/l", Type: "symlink"}, c34File(j("tree/usr/x"), "/a/y/z"), {Dst: "/b/q", Type: "dir"}}},
		{"unicode-and-spaces", []wire.Content{c34File(j("with space/file name.txt"), "/opt/ünï cödé/fïle ✓.txt"), c34File(j("bin/tool"), "/opt/sp ace/t o o l"),
			{Dst: "/opt/日本語/", Type: "dir"}, {Src: "/opt/sp ace/t o o l", Dst: "/opt/ünï cödé/lnk →", Type: "symlink"}}},
		{"mtree-special-characters", []wire.Content{c34File(j("bin/tool"), "/opt/sh#arp/a\"quote"), c34File(j("etc/app.conf"), "/opt/back\\slash/t\tab"),
			{Dst: "/opt/#first/", Type: "dir"}, {Src: "../t\"a r#get\\x", Dst: "/opt/sh#arp/l\x7fnk", Type: "symlink"}}},
		// two entries for one path, the first spelled without the leading slash (and: a directory where a file already is):
		// planning refuses this list; a package that gets built from it carries a member name twice
		{"same-path-relative-and-absolute", []wire.Content{c34File(j("bin/tool"), "usr/share/demo/data.txt"), c34File(j("etc/app.conf"), "/usr/share/demo/data.txt"), c34File(j("bin/tool"), "/usr/bin/tool")}},
		{"same-path-relative-file-and-directory", []wire.Content{c34File(j("bin/tool"), "usr/share/demo/thing"), {Dst: "/usr/share/demo/thing", Type: "dir"}, c34File(j("bin/tool"), "/usr/bin/tool")}},
		// an entry two levels beneath a path that is declared as a symbolic link (planning refuses the list: nothing lies
		// beneath a non-directory); a name with a backslash and dots that is one file name here
		{"same-path-beneath-a-symlink", []wire.Content{{Src: "/srv/app-1.0", Dst: "/opt/app", Type: "symlink"}, c34File(j("bin/tool"), "/opt/app/bin/tool")}},
		{"same-path-beneath-a-file", []wire.Content{c34File(j("etc/app.conf"), "/opt/conf"), c34File(j("bin/tool"), "/opt/conf/a/b/tool")}},
		{"backslash-and-dots-in-a-name", []wire.Content{c34File(j("bin/tool"), "/opt/demo/x\\..\\tool"), c34File(j("etc/app.conf"), "/opt/demo/tool"), {Src: "..\\x", Dst: "/opt/demo/l\\..\\nk", Type: "symlink"}}},
		{"setuid-owner-mtime", []wire.Content{
			{Src: j("bin/suid"), Dst: "/usr/bin/suid", Info: &wire.FileInfo{Mode: 0o4755, Owner: "root", Group: "wheel", MTime: 1500000001}},
			{Src: j("bin/tool"), Dst: "/usr/bin/sgid", Info: &wire.FileInfo{Mode: 0o2755, Owner: "daemon", Group: "app", MTime: wire.ZeroTime}},
			{Src: j("etc/app.conf"), Dst: "/etc/app/sticky.conf", Type: "config|noreplace", Info: &wire.FileInfo{Mode: 0o1644, MTime: 1}},
			{Dst: "/var/lib/app/t", Type: "dir", Info: &wire.FileInfo{Mode: 0o1777, Owner: "app", MTime: 1500000002}}}},
		{"tree-and-globs", []wire.Content{{Src: j("tree"), Dst: "/usr/share/app/t", Type: "tree"}, {Src: j("etc/**/*.conf"), Dst: "/etc/app/g", Type: "config"},
			{Src: j("etc/conf.d"), Dst: "/etc/app/d"}}},
		{"rpm-types", []wire.Content{{Dst: "/var/log/app.log", Type: "ghost"}, {Src: j("share/doc/README"), Dst: "/usr/share/doc/app/README", Type: "readme"},
			{Src: j("share/doc/LICENSE"), Dst: "/usr/share/doc/app/LICENSE", Type: "license"}, {Src: j("share/doc/README"), Dst: "/usr/share/doc/app/doc", Type: "doc"},
			c34File(j("bin/tool"), "/usr/bin/tool")}},
		// top-level names that sort before ".PKGINFO" / before any letter (member and manifest order must not depend on them)
		{"low-sorting-names", []wire.Content{c34File(j("bin/tool"), "/+extras/tool"), c34File(j("etc/app.conf"), "/-dash"), c34File(j("share/doc/README"), "/.BUILDINFO"),
			c34File(j("share/doc/LICENSE"), "/.aaa/file"), {Dst: "/!bang/", Type: "dir"}, c34File(j("bin/tool"), "/usr/bin/tool")}},
		// destinations written relative, climbing above the root, or unclean: they denote the cleaned absolute path,
		// and share parents with ordinary entries
		{"unclean-destinations", []wire.Content{c34File(j("bin/tool"), "/etc/demo/tool"), {Src: "/etc/demo/tool", Dst: "../etc/demo/link", Type: "symlink"},
			{Dst: "../../var/lib/demo", Type: "dir"}, c34File(j("etc/app.conf"), "/var/lib/demo/x/../app.conf"), c34File(j("share/doc/README"), "usr//share/./doc/README"),
			{Src: j("tree"), Dst: "../usr/share/demo-tree", Type: "tree"}}},
		// the root directory itself, declared and as the destination of a tree (rpm only: rpmpack leaves the root out;
		// for the tar formats an entry that denotes the root is the recorded finding C05-root-destination)
		{"root-directory-rpm", []wire.Content{{Dst: "/", Type: "dir"}, c34File(j("bin/tool"), "/usr/bin/tool")}},
		{"root-directory-rpm", []wire.Content{{Src: j("tree"), Dst: "/", Type: "tree"}, c34File(j("bin/tool"), "/opt/tool")}},
		// a hidden top-level directory next to its namesake without the dot: two different paths, two sets of members
		{"dotted-and-undotted-twins", []wire.Content{c34File(j("etc/app.conf"), "/.demo/settings.conf"), c34File(j("etc/app.conf"), "/demo/settings.conf"),
			c34File(j("bin/tool"), "/..data/tool"), c34File(j("bin/tool"), "/data/tool"), {Dst: "/.cache/", Type: "dir"}, {Dst: "/cache/", Type: "dir"}}},
		// a source that is a character device (deb.tarHeader has branches for devices and fifos): the member is at its
		// destination like every other
		{"device-source-deb", []wire.Content{c34File("/dev/null", "/opt/dev/null-device"), c34File(j("bin/tool"), "/usr/bin/tool")}},
		{"long-names", []wire.Content{c34File(j("bin/tool"), "/opt/long/"+strings.Repeat("d", 60)+"/"+strings.Repeat("n", 120)+".txt"),
			c34File(j("etc/app.conf"), "/opt/long/"+strings.Repeat("e", 91)+"/"+strings.Repeat("f", 90)+"/"+strings.Repeat("g", 110)),
			{Src: "/" + strings.Repeat("t", 130), Dst: "/opt/long/" + strings.Repeat("l", 101), Type: "symlink"},
			// 120 bytes that USTAR can split into prefix (59) and name (60)
			c34File(j("share/doc/README"), "/opt/long/"+strings.Repeat("p", 50)+"/"+strings.Repeat("s", 60))}},
	}
	for _, k := range []int{1, 511, 512, 513, 1023, 1024, 1025, 4095, 4096, 4097} {
		ps = append(ps, c34Payload{fmt.Sprintf("exact-%d", k), []wire.Content{c34File(e.exact[k], fmt.Sprintf("/opt/exact/f%d.bin", k))}})
	}
	var all []wire.Content
	for _, k := range []int{0, 1, 511, 512, 513, 1023, 1024, 1025, 4095, 4096, 4097} {
		all = append(all, c34File(e.exact[k], fmt.Sprintf("/opt/exact/f%d.bin", k)))
	}
	ps = append(ps, c34Payload{"all-exact-sizes", all})
	ps = append(ps,
		c34Payload{"big-random", []wire.Content{c34File(e.bigRand, "/opt/big/random.bin")}},
		c34Payload{"big-zeros", []wire.Content{c34File(e.bigZero, "/opt/big/zero.bin")}},
		c34Payload{"big-random+zeros", []wire.Content{c34File(e.bigRand, "/opt/big/random.bin"), c34File(e.bigZero, "/opt/big/zero.bin"), c34File(e.exact[1], "/opt/big/tail")}})
	if e.hugeRand != "" {
		ps = append(ps,
			c34Payload{"huge-random", []wire.Content{c34File(e.hugeRand, "/opt/huge/random.bin")}},
			c34Payload{"huge-zeros+odd", []wire.Content{c34File(e.hugeZero, "/opt/huge/zero.bin"), c34File(e.hugeOdd, "/opt/huge/odd.bin")}})
	}
	var many []wire.Content
	for i, p := range e.small {
		many = append(many, c34File(p, fmt.Sprintf("/usr/share/many/%c/s%03d.txt", 'a'+i%7, i)))
	}
	ps = append(ps, c34Payload{fmt.Sprintf("many-small-%d", len(many)), many})
	return ps
}

// mixedPayload is a small payload with every member kind, used where the scenario varies something else.
func (e *c34Env) mixedPayload() c34Payload {
	t := e.tree.Root
	return c34Payload{"mixed", []wire.Content{c34File(filepath.Join(t, "bin/tool"), "/usr/bin/tool"),
		{Src: filepath.Join(t, "etc/app.conf"), Dst: "/etc/app/app.conf", Type: "config"},
		{Dst: "/var/lib/app/", Type: "dir"}, {Src: "/usr/bin/tool", Dst: "/usr/bin/t", Type: "symlink"},
		c34File(filepath.Join(t, "share/empty"), "/a/e"), c34File(e.exact[4096], "/b/c/block.bin")}}
}

func c34Base(p c34Payload, mtime int64) *PkgSpec {
	d := map[string]any{"class": p.Class}
	if p.Class == "fractional-source-mtime" {
		d["source_mtimes"] = "frac-0.txt 1600020000.7, frac-1.txt 1600020001.3, frac-2.txt 1600020002.5 (seconds since the epoch)"
	}
	return &PkgSpec{Raw: p.Raw, Umask: 0o022, MTime: mtime, Describe: d}
}

func c34WithCompression(s *PkgSpec, deb, rpm string) *PkgSpec {
	return c10derive(s, map[string]any{"deb.compression": deb, "rpm.compression": rpm}, func(info *nfpm.Info) {
		info.Deb.Compression = deb
		info.RPM.Compression = rpm
	})
}

func (e *c34Env) withScripts(s *PkgSpec, sels []string) *PkgSpec {
	sels = append([]string{}, sels...)
	sort.Strings(sels)
	return c10derive(s, map[string]any{"scripts": sels}, func(info *nfpm.Info) {
		for _, sel := range sels {
			setScript(info, sel, e.scripts[sel])
		}
	})
}

func (e *c34Env) withLongChangelog(s *PkgSpec) *PkgSpec {
	return c10derive(s, map[string]any{"changelog": "60 releases, two notes each (changelog-long.yaml)"}, func(info *nfpm.Info) { info.Changelog = e.longChangelog })
}

func (e *c34Env) withEmptyChangelog(s *PkgSpec) *PkgSpec {
	return c10derive(s, map[string]any{"changelog": "a changelog file without entries: []"}, func(info *nfpm.Info) { info.Changelog = e.emptyChangelog })
}

func (e *c34Env) withChangelog(s *PkgSpec) *PkgSpec {
	return c10derive(s, map[string]any{"changelog": c34Changelog}, func(info *nfpm.Info) { info.Changelog = e.changelog })
}

func (e *c34Env) withDebSign(s *PkgSpec, method, typ string, key c10PGPKey) *PkgSpec {
	return c10derive(s, map[string]any{"deb.signature": map[string]any{"method": method, "type": typ, "key_file": key.File, "key": key.Label, "key_id": key.KeyID}}, func(info *nfpm.Info) {
		info.Deb.Signature.Method = method
		info.Deb.Signature.Type = typ
		info.Deb.Signature.KeyFile = e.key(key.File)
		info.Deb.Signature.KeyPassphrase = key.Pass
		info.Deb.Signature.KeyID = c10ptr(key.KeyID)
	})
}

func (e *c34Env) withRpmSign(s *PkgSpec, key c10PGPKey) *PkgSpec {
	return c10derive(s, map[string]any{"rpm.signature": map[string]any{"key_file": key.File, "key": key.Label, "key_id": key.KeyID}}, func(info *nfpm.Info) {
		info.RPM.Signature.KeyFile = e.key(key.File)
		info.RPM.Signature.KeyPassphrase = key.Pass
		info.RPM.Signature.KeyID = c10ptr(key.KeyID)
	})
}

func (e *c34Env) withApkSign(s *PkgSpec, key c10RSAKey, name string) *PkgSpec {
	return c10derive(s, map[string]any{"apk.signature": map[string]any{"key_file": key.Priv, "key": key.Label, "key_name": name}}, func(info *nfpm.Info) {
		info.APK.Signature.KeyFile = e.key(key.Priv)
		info.APK.Signature.KeyPassphrase = key.Pass
		info.APK.Signature.KeyName = name
	})
}

// c34Extra adds to a random content list the shapes the C01 generator does not produce.
func (e *c34Env) extraContents(r *rng.R, i int) []wire.Content {
	t := e.tree
	var cs []wire.Content
	one := func() string { return string(rune('a' + r.Intn(6))) }
	k := r.Intn(4)
	for x := 0; x < k; x++ {
		switch r.Intn(9) {
		case 0:
			cs = append(cs, c34File(rng.Pick(r, t.Files), fmt.Sprintf("/%s/x%d_%d", one(), i, x)))
		case 1:
			cs = append(cs, wire.Content{Dst: fmt.Sprintf("/%s/", one()), Type: "dir"})
		case 2:
			cs = append(cs, c34File(rng.Pick(r, t.Files), fmt.Sprintf("/%s/%s/n%d_%d", one(), one(), i, x)))
		case 3:
			cs = append(cs, wire.Content{Src: "/" + one() + "/x", Dst: fmt.Sprintf("/%s/l%d_%d", one(), i, x), Type: "symlink"})
		case 4:
			cs = append(cs, c34File(rng.Pick(r, t.Files), fmt.Sprintf("/opt/ünï cödé %d/fïle ✓ %d.txt", i%3, x)))
		case 5:
			sz := rng.Pick(r, []int{0, 1, 511, 512, 513, 1023, 1024, 1025, 4095, 4096, 4097})
			cs = append(cs, c34File(e.exact[sz], fmt.Sprintf("/opt/exact/r%d_%d.bin", i, x)))
		case 6:
			cs = append(cs, wire.Content{Src: rng.Pick(r, t.Files), Dst: fmt.Sprintf("/usr/libexec/app/s%d_%d", i, x),
				Info: &wire.FileInfo{Mode: rng.Pick(r, []uint32{0o4755, 0o2755, 0o6755, 0o1755}), Owner: rng.Pick(r, []string{"root", "app"}), Group: "wheel",
					MTime: rng.Pick(r, []int64{wire.ZeroTime, 1, 1500000000 + int64(r.Intn(1000))})}})
		case 7:
			cs = append(cs, c34File(rng.Pick(r, e.small), fmt.Sprintf("/usr/share/many/%s/r%d_%d", one(), i, x)))
		default:
			if r.Chance(1, 6) {
				cs = append(cs, c34File(rng.Pick(r, []string{e.bigRand, e.bigZero}), fmt.Sprintf("/opt/big/r%d_%d.bin", i, x)))
			} else {
				cs = append(cs, wire.Content{Dst: fmt.Sprintf("/%s/%s", one(), one()), Type: "dir"})
			}
		}
	}
	return cs
}

func c34Subset(r *rng.R, xs []string) []string {
	var out []string
	for _, x := range xs {
		if r.Bool() {
			out = append(out, x)
		}
	}
	return out
}

// randomCases: family 1, random content lists over the source tree with random settings.
func (e *c34Env) randomCases(r *rng.R, n int) []c34Case {
	var out []c34Case
	for i := 0; i < n; i++ {
		s := genPkgSpec(r, e.tree)
		s.Raw = append(s.Raw, e.extraContents(r, i)...)
		s.Describe["class"] = "random"
		if r.Chance(1, 3) {
			s = c34WithCompression(s, rng.Pick(r, debCompressions), rng.Pick(r, c34RpmCompressions))
		}
		for _, f := range Formats {
			fs := s
			if r.Chance(1, 4) {
				fs = e.withScripts(fs, c34Subset(r, scriptSelectors[f]))
			}
			if (f == "deb" || f == "rpm") && r.Chance(1, 6) {
				fs = e.withChangelog(fs)
			}
			if r.Chance(1, 5) {
				switch f {
				case "deb":
					if r.Bool() {
						fs = e.withDebSign(fs, "debsign", rng.Pick(r, []string{"", "origin", "maint", "archive"}), rng.Pick(r, c34PGPKeys))
					} else {
						fs = e.withDebSign(fs, "dpkg-sig", rng.Pick(r, []string{"", "builder", "origin", "maint", "archive"}), rng.Pick(r, c34PGPKeys))
					}
				case "rpm":
					fs = e.withRpmSign(fs, rng.Pick(r, c34PGPKeys))
				case "apk":
					fs = e.withApkSign(fs, rng.Pick(r, c10RSAKeys), rng.Pick(r, []string{"", "origin", "x.rsa.pub"}))
				}
			}
			out = append(out, c34Case{S: fs, Format: f, Class: "random", Label: fmt.Sprintf("random#%d", i)})
		}
	}
	return out
}

// boundaryCases: family 2.  quick: every boundary payload x every format with the compression setting rotating;
// thorough: the full cross product with every compression setting.
func (e *c34Env) boundaryCases() []c34Case {
	var out []c34Case
	for pi, p := range e.boundaryPayloads() {
		mts := []int64{1700000000}
		switch {
		case e.c.Thorough(), p.Class == "fractional-source-mtime", p.Class == "setuid-owner-mtime", p.Class == "tree-and-globs", p.Class == "empty", p.Class == "only-dirs":
			mts = append(mts, wire.ZeroTime) // info.MTime unset: entries carry the modification time of their source
		}
		for _, mt := range mts {
			base := c34Base(p, mt)
			mtl := ""
			if mt == wire.ZeroTime {
				mtl = "/mtime-unset"
			}
			for _, f := range Formats {
				if p.Class == "root-directory-rpm" && f != "rpm" {
					continue
				}
				if p.Class == "device-source-deb" && (f != "deb" || e.c.Prop != "C04") {
					// a C04 class (member names); what md5sums should say about a device member is outside C03's statement
					continue
				}
				var comps []string
				switch f {
				case "deb":
					comps = debCompressions
				case "rpm":
					comps = c34RpmCompressions
				default:
					comps = []string{""}
				}
				if !e.c.Thorough() && f == "rpm" {
					comps = []string{comps[pi%len(comps)], comps[(pi*3+1)%len(comps)], comps[(pi*5+2)%len(comps)]}
				}
				for _, comp := range comps {
					cs := c34Case{S: c34WithCompression(base, comp, comp), Format: f, Class: p.Class,
						Label: fmt.Sprintf("boundary/%s/%s%s", p.Class, comp, mtl), MustBuild: !strings.HasPrefix(p.Class, "same-path-")}
					if f == "archlinux" && mt == wire.ZeroTime {
						// the clock is varied explicitly in the extras family and freely in the random family
						cs.Clock = "low"
						cs.Label += "/clock-low"
					}
					out = append(out, cs)
				}
			}
		}
	}
	return out
}

// compressionCases: family 3, every compression setting on three payloads.
func (e *c34Env) compressionCases(r *rng.R) []c34Case {
	var out []c34Case
	bp := e.boundaryPayloads()
	pick := func(class string) c34Payload {
		for _, p := range bp {
			if p.Class == class {
				return p
			}
		}
		panic("no payload " + class)
	}
	payloads := []c34Payload{e.mixedPayload(), pick("empty"), pick("big-random+zeros"), pick("all-exact-sizes")}
	for _, p := range payloads {
		for _, mt := range []int64{1700000000, wire.ZeroTime} {
			if mt == wire.ZeroTime && p.Class != "mixed" {
				continue
			}
			base := c34Base(p, mt)
			for _, comp := range debCompressions {
				out = append(out, c34Case{S: c34WithCompression(base, comp, ""), Format: "deb", Class: p.Class, Label: "compression/deb/" + comp + "/" + p.Class, MustBuild: !strings.HasPrefix(p.Class, "same-path-")})
			}
			for _, comp := range c34RpmCompressions {
				out = append(out, c34Case{S: c34WithCompression(base, "", comp), Format: "rpm", Class: p.Class, Label: "compression/rpm/" + comp + "/" + p.Class, MustBuild: !strings.HasPrefix(p.Class, "same-path-")})
			}
		}
	}
	_ = r
	return out
}

// signedCases: family 4.
func (e *c34Env) signedCases(r *rng.R) []c34Case {
	var out []c34Case
	bp := e.boundaryPayloads()
	payloads := []c34Payload{e.mixedPayload()}
	for _, p := range bp {
		switch p.Class {
		case "empty", "big-random+zeros", "single-char-dirs", "exact-4095", "only-dirs":
			payloads = append(payloads, p)
		}
	}
	rounds := e.c.N(1, 12)
	k := 0
	next := func() (*PkgSpec, string) {
		p := payloads[k%len(payloads)]
		k++
		return c34Base(p, rng.Pick(r, []int64{1700000000, 1700000000, wire.ZeroTime})), p.Class
	}
	for round := 0; round < rounds; round++ {
		for ti, typ := range []string{"", "origin", "maint", "archive"} {
			for ci, comp := range debCompressions {
				if !e.c.Thorough() && (ti+ci+round)%2 == 1 {
					continue
				}
				base, class := next()
				key := c34PGPKeys[(ti*5+ci+round)%len(c34PGPKeys)]
				s := e.withDebSign(c34WithCompression(base, comp, ""), "debsign", typ, key)
				out = append(out, c34Case{S: s, Format: "deb", Class: class, Label: fmt.Sprintf("signed/deb/debsign/%s/%s/%s#%d", typ, comp, key.Label, round), MustBuild: true})
			}
		}
		for ti, typ := range []string{"", "builder", "origin", "maint", "archive"} {
			for ci, comp := range debCompressions {
				if !e.c.Thorough() && (ti+ci+round)%2 == 0 {
					continue
				}
				base, class := next()
				key := c34PGPKeys[(ti*5+ci+round+3)%len(c34PGPKeys)]
				s := e.withDebSign(c34WithCompression(base, comp, ""), "dpkg-sig", typ, key)
				out = append(out, c34Case{S: s, Format: "deb", Class: class, Label: fmt.Sprintf("signed/deb/dpkg-sig/%s/%s/%s#%d", typ, comp, key.Label, round), MustBuild: true})
			}
		}
		for ki, key := range c34PGPKeys {
			base, class := next()
			comp := c34RpmCompressions[(ki+round*3)%len(c34RpmCompressions)]
			s := e.withRpmSign(c34WithCompression(base, "", comp), key)
			out = append(out, c34Case{S: s, Format: "rpm", Class: class, Label: fmt.Sprintf("signed/rpm/%s/%s#%d", comp, key.Label, round), MustBuild: true})
		}
		for _, key := range c10RSAKeys {
			for _, name := range []string{"", "origin", "x.rsa.pub"} {
				base, class := next()
				s := e.withApkSign(base, key, name)
				out = append(out, c34Case{S: s, Format: "apk", Class: class, Label: fmt.Sprintf("signed/apk/%s/%s#%d", key.Label, name, round), MustBuild: true})
			}
		}
	}
	return out
}

// extrasCases: family 5: changelog, scripts, mtime set / unset.
func (e *c34Env) extrasCases(r *rng.R) []c34Case {
	var out []c34Case
	mixed := e.mixedPayload()
	empty := c34Payload{"empty", nil}
	for _, p := range []c34Payload{mixed, empty} {
		for _, mt := range []int64{1700000000, wire.ZeroTime} {
			base := c34Base(p, mt)
			mtl := "mtime-set"
			if mt == wire.ZeroTime {
				mtl = "mtime-unset"
			}
			for _, f := range Formats {
				sels := scriptSelectors[f]
				variants := [][]string{nil, {sels[0]}, sels, {sels[len(sels)-1]}}
				if f == "archlinux" {
					// .INSTALL iff scripts: each script alone switches it on
					for _, sel := range sels {
						variants = append(variants, []string{sel})
					}
				}
				if e.c.Thorough() {
					for x := 0; x < 6; x++ {
						variants = append(variants, c34Subset(r, sels))
					}
				}
				for vi, v := range variants {
					s := base
					if len(v) > 0 {
						s = e.withScripts(s, v)
					}
					cs := c34Case{S: s, Format: f, Class: p.Class, Label: fmt.Sprintf("extras/%s/%s/scripts-%d/%s", f, p.Class, vi, mtl), MustBuild: !strings.HasPrefix(p.Class, "same-path-")}
					if f == "archlinux" && mt == wire.ZeroTime {
						cs.Clock = "low"
					}
					out = append(out, cs)
				}
				if mt == wire.ZeroTime {
					for _, clk := range []string{"low", "high"} {
						out = append(out, c34Case{S: base, Format: f, Class: p.Class, Label: fmt.Sprintf("extras/%s/%s/mtime-unset/clock-%s", f, p.Class, clk), MustBuild: !strings.HasPrefix(p.Class, "same-path-"), Clock: clk})
					}
				}
				if f == "deb" || f == "rpm" {
					for _, comp := range []string{"", "xz", "zstd"} {
						s := e.withChangelog(c34WithCompression(base, comp, comp))
						out = append(out, c34Case{S: s, Format: f, Class: p.Class, Label: fmt.Sprintf("extras/%s/%s/changelog/%s/%s", f, p.Class, comp, mtl), MustBuild: true})
						if comp == "" {
							out = append(out, c34Case{S: e.withLongChangelog(base), Format: f, Class: p.Class, Label: fmt.Sprintf("extras/%s/%s/long-changelog/%s", f, p.Class, mtl), MustBuild: true})
							out = append(out, c34Case{S: e.withEmptyChangelog(base), Format: f, Class: p.Class, Label: fmt.Sprintf("extras/%s/%s/empty-changelog/%s", f, p.Class, mtl)})
						}
						if f == "deb" {
							s2 := e.withDebSign(e.withScripts(s, sels), "dpkg-sig", "", c34PGPKeys[1])
							out = append(out, c34Case{S: s2, Format: f, Class: p.Class, Label: fmt.Sprintf("extras/deb/%s/changelog+scripts+dpkg-sig/%s/%s", p.Class, comp, mtl), MustBuild: true})
						}
					}
				}
			}
		}
	}
	return out
}

// ---------------------------------------------------------------------------
// analysis of one built package
// ---------------------------------------------------------------------------

type c34Result struct {
	Format                  string
	In                      map[string]any
	BuildErr, DecodeErr     error
	C03, C04                []report.Finding
	Labels                  []string
	Key                     string
	Built                   bool
	Members                 int
	Checks                  []string // driver ops that were evaluated
	GoChecks                int
	SegCompared, SegSkip    int
	TarCompared, TarSkipped int // tar streams sent through the byte-level tar model / left out (not expressible or too large)
	TarBy                   map[string]int
	Err                     error // harness or driver trouble: never silently dropped
	Notes                   []string
	fam                     string
}

func (res *c34Result) f03(shape, what string) {
	res.C03 = append(res.C03, report.Finding{Property: "C03", Family: res.fam, Shape: res.Format + ":" + shape, What: what, Input: res.In})
}

func (res *c34Result) f04(shape, what string) {
	res.C04 = append(res.C04, report.Finding{Property: "C04", Family: res.fam, Shape: res.Format + ":" + shape, What: what, Input: res.In})
}

// check records a Go-side C04 check.
func (res *c34Result) check(ok bool, shape, format string, a ...any) {
	res.GoChecks++
	if !ok {
		res.f04(shape, fmt.Sprintf(format, a...))
	}
}

type c34Query struct {
	req string
	on  func(ans string)
}

// verdict turns a driver answer into findings: one per violated clause.
func (res *c34Result) verdict(prop, prefix, what, op, ans string, detail func(reason string) string) {
	switch {
	case ans == "holds":
	case strings.HasPrefix(ans, "violated "):
		for _, reason := range strings.Split(strings.TrimPrefix(ans, "violated "), ";") {
			head := strings.SplitN(reason, ":", 2)[0]
			w := what + ": " + reason
			if detail != nil {
				if d := detail(head); d != "" {
					w += " — " + d
				}
			}
			if prop == "C03" {
				res.f03(prefix+head, w)
			} else {
				res.f04(prefix+head, w)
			}
		}
	default:
		if res.Err == nil {
			res.Err = fmt.Errorf("driver answered %q to %s (harness encoding bug)", c34Short(ans, 200), op)
		}
	}
}

func c34Short(s string, n int) string {
	if len(s) > n {
		return s[:n] + "…"
	}
	return s
}

func c34Opt(v string, ok bool) string {
	if !ok {
		return "none"
	}
	return "some " + wire.H(v)
}

func c34OptNat(t decode.RpmTag, ok bool) string {
	if !ok || len(t.Ints) == 0 {
		return "none"
	}
	return fmt.Sprintf("some %d", t.Ints[0])
}

func c34OptStr(t decode.RpmTag, ok bool) string {
	if !ok || len(t.Strs) == 0 {
		return "none"
	}
	return "some " + wire.H(t.Strs[0])
}

// c34SM encodes a member as shipped; the digests are computed here from the decoded body.
func c34SM(name string, kind byte, mode, mtime, size int64, link string, body []byte, pax string, hasPax bool) string {
	m5, s1, s2 := md5.Sum(body), sha1.Sum(body), sha256.Sum256(body)
	return fmt.Sprintf("%s %d %d %d %d %s %d %s %s %s %s", wire.H(name), kind, mode, mtime, size, wire.H(link), len(body),
		wire.H(string(m5[:])), wire.H(string(s1[:])), wire.H(string(s2[:])), c34Opt(pax, hasPax))
}

func c34SMEntry(e decode.Entry) string {
	pax, has := e.PAX["APK-TOOLS.checksum.SHA1"]
	return c34SM(e.Name, e.Type, e.Mode, e.MTime, e.Size, e.Linkname, e.Body, pax, has)
}

func c34SMList(es []decode.Entry) string {
	var b strings.Builder
	fmt.Fprintf(&b, "%d", len(es))
	for _, e := range es {
		b.WriteString(" ")
		b.WriteString(c34SMEntry(e))
	}
	return b.String()
}

func c34Names(dotted bool, es []decode.Entry) string {
	var b strings.Builder
	fmt.Fprintf(&b, "c04names %s %d", wire.B(dotted), len(es))
	for _, e := range es {
		fmt.Fprintf(&b, " %s %d", wire.H(e.Name), e.Type)
	}
	return b.String()
}

func c34HexList(ss []string) string { return encBytesList(ss) }

// c34Field returns the value of a deb/ipk control field (first line "Name: value").
func c34Field(body []byte, name string) (string, bool) {
	for _, ln := range strings.Split(string(body), "\n") {
		if strings.HasPrefix(ln, name+":") {
			return strings.TrimPrefix(strings.TrimPrefix(ln, name+":"), " "), true
		}
	}
	return "", false
}

// c34KV returns the value of the first "key = value" line.
func c34KV(body []byte, key string) (string, bool) {
	for _, ln := range strings.Split(string(body), "\n") {
		if strings.HasPrefix(ln, key+" = ") {
			return strings.TrimPrefix(ln, key+" = "), true
		}
	}
	return "", false
}

func c34Sniff(b []byte) string {
	switch {
	case len(b) >= 2 && b[0] == 0x1f && b[1] == 0x8b:
		return "gzip"
	case len(b) >= 6 && bytes.Equal(b[:6], []byte{0xfd, '7', 'z', 'X', 'Z', 0}):
		return "xz"
	case len(b) >= 4 && bytes.Equal(b[:4], []byte{0x28, 0xb5, 0x2f, 0xfd}):
		return "zstd"
	case len(b) >= 3 && b[0] == 0x5d && b[1] == 0 && b[2] == 0:
		return "lzma"
	}
	return "none"
}

// c34TarStrict reads a tar stream with archive/tar until io.EOF; anything else is an error.
func c34TarStrict(stream []byte) (int, error) {
	tr := tar.NewReader(bytes.NewReader(stream))
	n := 0
	for {
		_, err := tr.Next()
		if err == io.EOF {
			return n, nil
		}
		if err != nil {
			return n, fmt.Errorf("member %d: %w", n, err)
		}
		if _, err := io.Copy(io.Discard, tr); err != nil {
			return n, fmt.Errorf("body of member %d: %w", n, err)
		}
		n++
	}
}

func c34Gunzip(b []byte, multistream bool) ([]byte, error) {
	zr, err := gzip.NewReader(bytes.NewReader(b))
	if err != nil {
		return nil, err
	}
	zr.Multistream(multistream)
	return io.ReadAll(zr)
}

// c34LastDataEnd walks the 512-byte blocks of a tar stream and returns the
// offset at which the data of the last member ends (its padding not counted).
func c34LastDataEnd(s []byte) (int, bool) {
	off, end := 0, 0
	for off+512 <= len(s) {
		blk := s[off : off+512]
		zero := true
		for _, c := range blk {
			if c != 0 {
				zero = false
				break
			}
		}
		if zero {
			break
		}
		var size int64
		f := blk[124:136]
		if f[0]&0x80 != 0 {
			for i, c := range f {
				if i == 0 {
					c &= 0x7f
				}
				size = size<<8 | int64(c)
			}
		} else {
			for _, c := range bytes.Trim(f, " \x00") {
				if c < '0' || c > '7' {
					return 0, false
				}
				size = size<<3 | int64(c-'0')
			}
		}
		switch blk[156] {
		case '1', '2', '3', '4', '5', '6':
			size = 0
		}
		if size < 0 || int64(off)+512+size > int64(len(s)) {
			return 0, false
		}
		end = off + 512 + int(size)
		off = off + 512 + int(size+511)/512*512
	}
	return end, true
}

func c34FirstDiff(want, got string) string {
	w, g := strings.Split(want, "\n"), strings.Split(got, "\n")
	var out []string
	n := 0
	for i := 0; i < len(w) || i < len(g); i++ {
		var a, b string
		if i < len(w) {
			a = w[i]
		}
		if i < len(g) {
			b = g[i]
		}
		if a != b {
			n++
			if len(out) < 4 {
				out = append(out, fmt.Sprintf("line %d: spec %q, package %q", i+1, c34Short(a, 300), c34Short(b, 300)))
			}
		}
	}
	if n == 0 {
		return "no line differs"
	}
	return fmt.Sprintf("%d of %d (spec) / %d (package) lines differ: %s", n, len(w), len(g), strings.Join(out, "; "))
}

// c34DiffClass names, for a line-oriented digest listing, which parts of the lines
// differ (stable, input-independent): it refines the shape of a "differs" finding
// so that one known difference does not mask another.
func c34DiffClass(want, got string, split func(line string) map[string]string) string {
	w, g := strings.Split(want, "\n"), strings.Split(got, "\n")
	set := map[string]bool{}
	if len(w) != len(g) {
		set["lines"] = true
	}
	for i := 0; i < len(w) && i < len(g); i++ {
		if w[i] == g[i] {
			continue
		}
		a, b := split(w[i]), split(g[i])
		for k, v := range a {
			if bv, ok := b[k]; !ok || bv != v {
				set[k] = true
			}
		}
		for k := range b {
			if _, ok := a[k]; !ok {
				set[k] = true
			}
		}
	}
	var ks []string
	for k := range set {
		ks = append(ks, k)
	}
	sort.Strings(ks)
	if len(ks) == 0 {
		return "none"
	}
	return strings.Join(ks, "-")
}

func c34MtreeSplit(line string) map[string]string {
	m := map[string]string{}
	rest := ""
	if i := strings.Index(line, " time="); i >= 0 {
		m["path"], rest = line[:i], line[i+1:]
	} else {
		m["path"] = line
	}
	if i := strings.Index(rest, " link="); i >= 0 {
		m["link"], rest = rest[i+6:], rest[:i]
	}
	for _, tok := range strings.Fields(rest) {
		k, v, _ := strings.Cut(tok, "=")
		if m["path"] == "./.PKGINFO" {
			k = "pkginfo:" + k // the line of .PKGINFO is written by other code than the payload lines
		}
		m[k] = v
	}
	return m
}

func c34Md5Split(line string) map[string]string {
	d, n, ok := strings.Cut(line, "  ")
	if !ok {
		return map[string]string{"format": line}
	}
	return map[string]string{"digest": d, "name": n}
}

// tarFacts checks what the raw block walker found in one tar stream.
func (res *c34Result) tarFacts(which string, f decode.TarFacts, complete bool) {
	res.check(f.BadHeaderAt < 0, which+"-tar-bad-header", "%s tar: block at offset %d is neither zero nor a valid header", which, f.BadHeaderAt)
	res.check(!f.Truncated, which+"-tar-truncated", "%s tar: the last member runs past the end of the stream (%d bytes, walk stopped at %d)", which, f.Len, f.StopAt)
	res.check(f.Aligned512, which+"-tar-not-512-aligned", "%s tar: %d bytes is not a multiple of 512", which, f.Len)
	if complete {
		res.check(f.EndMarkerAt >= 0, which+"-tar-no-end-marker", "%s tar: no end-of-archive marker (two zero blocks) after the last member (walk stopped at %d of %d bytes)", which, f.StopAt, f.Len)
		res.check(f.TrailingZeroes >= 0, which+"-tar-garbage-after-end", "%s tar: non-zero bytes follow the end-of-archive marker at %d", which, f.EndMarkerAt)
	}
}

func (res *c34Result) stdTar(which string, stream []byte, want int) {
	n, err := c34TarStrict(stream)
	res.check(err == nil, which+"-stdlib-tar-rejects", "archive/tar does not read the %s tar to io.EOF: %v", which, err)
	if err == nil && want >= 0 {
		res.check(n == want, which+"-stdlib-tar-member-count", "archive/tar reads %d members from the %s tar, the independent reader %d", n, which, want)
	}
}

func c34EntryNames(es []decode.Entry) []string {
	ns := make([]string, len(es))
	for i, e := range es {
		ns[i] = e.Name
	}
	return ns
}

func (e *c34Env) tmpFile(ext string, data []byte) (string, error) {
	p := filepath.Join(e.c.Tmp, fmt.Sprintf("c34-%d%s", e.seq.Add(1), ext))
	return p, os.WriteFile(p, data, 0o600)
}

func (e *c34Env) run(name string, args ...string) (string, error) {
	ctx, cancel := context.WithTimeout(context.Background(), 120*time.Second)
	defer cancel()
	cmd := exec.CommandContext(ctx, name, args...)
	cmd.Env = append(os.Environ(), "LC_ALL=C")
	out, err := cmd.CombinedOutput()
	return string(out), err
}

func c34CanonRpmName(n string) string {
	if strings.HasPrefix(n, "./") {
		return n[1:]
	}
	return n
}

func c34CpioKind(mode uint64) byte {
	switch mode & 0o170000 {
	case 0o40000:
		return '5'
	case 0o120000:
		return '2'
	}
	return '0'
}

// analyse runs every C03 and C04 check that applies to the format on one built
// package and returns the findings of both properties separately.
func (e *c34Env) analyse(fam, format string, s *PkgSpec, data []byte, res *c34Result) *Decoded {
	info := s.Info()
	dec, derr := DecodePkg(format, data)
	if derr != nil {
		res.DecodeErr = derr
		res.f04("undecodable", "the independent reader rejects the package: "+derr.Error())
		return nil
	}
	var qs []c34Query
	ask := func(req string, on func(string)) { qs = append(qs, c34Query{req, on}) }
	var follow []c34Query
	simple := func(prop, prefix, what, req string) {
		op := strings.SplitN(req, " ", 2)[0]
		res.Checks = append(res.Checks, op)
		ask(req, func(ans string) { res.verdict(prop, prefix, what, op, ans, nil) })
	}
	names := func(dotted bool, which string, es []decode.Entry) {
		prefix := ""
		if which != "data" {
			prefix = which + "-"
		}
		simple("C04", prefix, "member names of the "+which+" tar", c34Names(dotted, es))
	}

	// byte-level tar model (GNU format, no extension headers): the stream must be exactly what the model writer
	// renders from the stream's own decoded members, and the proven Lean reader must agree with the Go reader.
	// Streams with a member the plain header cannot express (long names, Go-only mode bits, …) are counted, not compared.
	tarModel := func(which string, stream []byte, es []decode.Entry) {
		if res.TarBy == nil {
			res.TarBy = map[string]int{}
		}
		// deb(5): the members of a deb are tar archives in v7, ustar or GNU format (long names as GNU 'L'/'K' members);
		// dpkg does not read POSIX.1-2001 extended headers and aborts on typeflag 'x'
		if format == "deb" {
			for _, en := range es {
				if len(en.PAX) > 0 || en.Format == "PAX" {
					res.f04("deb:pax-extended-header-in-"+which+"-tar", fmt.Sprintf("member %q of the %s archive is written with a PAX extended header (records %v): dpkg accepts only v7, ustar and GNU tar members (deb(5)) and rejects the package", en.Name, which, en.PAX))
					break
				}
			}
		}
		if len(stream) == 0 || len(stream) > e.segCap/4 {
			res.TarSkipped++
			res.TarBy[format+":"+which+":skipped-size"]++
			return
		}
		var req, want strings.Builder
		withPax, withBin, withLong := 0, 0, 0
		fmt.Fprintf(&req, "tarfile %d", len(es))
		fmt.Fprintf(&want, "%d", len(es))
		for _, en := range es {
			why := ""
			switch {
			case en.Format != "GNU" && en.Format != "USTAR" && en.Format != "PAX":
				why = "skipped-format-" + en.Format
			case len(en.PAX) > 0 && en.Format != "PAX":
				why = "skipped-records-outside-pax"
			case len(en.Uname) > 32 || len(en.Gname) > 32:
				why = "skipped-long-owner"
			case en.Mode < 0 || en.Uid < 0 || en.Gid < 0 || en.MTime < 0 || en.Size < 0 || strings.ContainsRune(en.Name, 0):
				why = "skipped-field-range"
			case en.Format != "GNU" && (en.Mode >= 1<<21 || en.Uid >= 1<<21 || en.Gid >= 1<<21 || en.MTime >= 1<<33 || en.Size >= 1<<33):
				why = "skipped-number-beyond-octal-field"
			case en.Mode >= 1<<56 || int64(en.Uid) >= 1<<56 || int64(en.Gid) >= 1<<56:
				why = "skipped-number-beyond-binary-field"
			case en.Format != "GNU" && !(c34ASCII(en.Uname) && c34ASCII(en.Gname)):
				why = "skipped-non-ascii-owner"
			}
			// a name / link name travels in a `path` / `linkpath` record when the header field cannot hold it; without
			// the record an over-long value is carried by a GNU long-name member or split into the USTAR prefix field
			fieldOK := func(val, key string) string {
				rec, has := en.PAX[key]
				switch {
				case has && rec != val:
					return "skipped-record-differs-from-reported-value"
				case has:
					a := make([]byte, 0, len(val))
					for i := 0; i < len(val); i++ {
						if val[i] < 0x80 {
							a = append(a, val[i])
						}
					}
					if len(a) > 100 && a[99] == '/' {
						return "skipped-name-cut-at-a-slash"
					}
					return ""
				case en.Format == "GNU" && len(val) > 100 && val[99] == '/':
					return "skipped-name-cut-at-a-slash"
				case en.Format != "GNU" && !c34ASCII(val):
					return "skipped-non-ascii-name"
				}
				// over-long values: GNU 'L' / 'K' members, USTAR prefix field – both in the model
				return ""
			}
			if why == "" {
				why = fieldOK(en.Name, "path")
			}
			if why == "" {
				why = fieldOK(en.Linkname, "linkpath")
			}
			// records that replace another header field (size, owner, times) make the main header differ from what the
			// reader reports: outside the model
			keys := make([]string, 0, len(en.PAX))
			for k := range en.PAX {
				switch k {
				case "size", "uid", "gid", "uname", "gname", "mtime", "atime", "ctime":
					if why == "" {
						why = "skipped-pax-record-replaces-header-field"
					}
				}
				keys = append(keys, k)
			}
			if why != "" {
				res.TarSkipped++
				res.TarBy[format+":"+which+":"+why]++
				return
			}
			sort.Strings(keys)
			fl := "g"
			if en.Format != "GNU" {
				fl = "u"
			}
			var pax strings.Builder
			fmt.Fprintf(&pax, "%d", len(keys))
			for _, k := range keys {
				fmt.Fprintf(&pax, " %s %s", wire.H(k), wire.H(en.PAX[k]))
			}
			if len(keys) > 0 {
				withPax++
			}
			if en.Mode >= 1<<21 || en.Uid >= 1<<21 || en.Gid >= 1<<21 || en.MTime >= 1<<33 || en.Size >= 1<<33 {
				withBin++
			}
			if len(en.Name) > 100 || len(en.Linkname) > 100 {
				withLong++
			}
			fmt.Fprintf(&req, " %s %s %d %d %d %d %d %d %s %s %s %s %s", fl, wire.H(en.Name), en.Mode, en.Uid, en.Gid, en.Size, en.MTime, en.Type,
				wire.H(en.Linkname), wire.H(en.Uname), wire.H(en.Gname), pax.String(), wire.H(string(en.Body)))
			fmt.Fprintf(&want, " %s %s %d %d %d %d %d %d %s %s %s %s %d", fl, wire.H(en.Name), en.Mode, en.Uid, en.Gid, en.Size, en.MTime, en.Type,
				wire.H(en.Linkname), wire.H(en.Uname), wire.H(en.Gname), pax.String(), len(en.Body))
		}
		if withBin > 0 {
			res.TarBy[format+":"+which+":compared-with-binary-number-fields"]++
		}
		if withLong > 0 {
			res.TarBy[format+":"+which+":compared-with-names-over-100-bytes"]++
		}
		if withPax > 0 {
			res.TarBy[format+":"+which+":compared-with-pax-records"]++
		}
		res.TarCompared++
		res.TarBy[format+":"+which+":compared"]++
		res.Checks = append(res.Checks, "tarfile", "tarread")
		ask(req.String(), func(ans string) {
			got, _ := wire.UnH(ans)
			if got != string(stream) {
				res.f04(which+"-tar-bytes-differ-from-model", "the "+which+" tar stream differs from the tar model's rendering of its own members: "+c34FirstDiff(got, string(stream)))
			}
		})
		ask("tarread "+wire.H(string(stream)), func(ans string) {
			if ans != want.String() {
				res.f04(which+"-tar-lean-reader-disagrees", fmt.Sprintf("the Lean tar reader answers %.300q, the Go reader found %.300q", ans, want.String()))
			}
		})
	}

	switch format {
	case "deb":
		d := dec.Deb
		res.Members = len(d.Data)
		md5sums, hasMd5 := d.ControlFile("md5sums")
		ctrl, hasCtrl := d.ControlFile("control")
		if !hasMd5 {
			res.f03("no-md5sums-member", "the control archive has no md5sums member")
		}
		if !hasCtrl {
			res.f04("no-control-member", "the control archive has no control member")
		}
		inst, hasInst := c34Field(ctrl, "Installed-Size")
		smList := c34SMList(d.Data)
		res.Checks = append(res.Checks, "c03deb")
		ask(fmt.Sprintf("c03deb %s %s %s", wire.H(string(md5sums)), c34Opt(inst, hasInst), smList), func(ans string) {
			res.verdict("C03", "", "md5sums / Installed-Size of the deb against the data tar as shipped", "c03deb", ans, func(head string) string {
				switch head {
				case "md5sums-differs":
					follow = append(follow, c34Query{"c03md5sums " + smList, func(a string) {
						want, _ := wire.UnH(a)
						for i := range res.C03 {
							if strings.HasSuffix(res.C03[i].Shape, ":md5sums-differs") {
								res.C03[i].Shape += "/" + c34DiffClass(want, string(md5sums), c34Md5Split)
								res.C03[i].What += " — " + c34FirstDiff(want, string(md5sums))
							}
						}
					}})
				case "installed-size-differs":
					var sum int
					for _, m := range d.Data {
						if m.Type == '0' {
							sum += len(m.Body)
						}
					}
					return fmt.Sprintf("control says Installed-Size %q (present=%v); regular payload bytes shipped: %d (%d KiB)", inst, hasInst, sum, sum/1024)
				}
				return ""
			})
		})
		// C04
		names(true, "data", d.Data)
		names(true, "control", d.Control)
		var sig string
		hasSig := info.Deb.Signature.KeyFile != "" || info.Deb.Signature.SignFn != nil
		if hasSig {
			sig = info.Deb.Signature.Type
			if sig == "" {
				sig = "origin"
				if info.Deb.Signature.Method == "dpkg-sig" {
					sig = "builder"
				}
			}
		}
		var arNames []string
		for _, m := range d.Members {
			arNames = append(arNames, m.Name)
		}
		simple("C04", "", fmt.Sprintf("ar members %q of the deb", arNames),
			fmt.Sprintf("c04deb %s %s %s %s", wire.H(info.Deb.Compression), c34Opt(sig, hasSig), c34HexList(arNames), wire.H(string(d.DebianBinary))))
		// byte-level ar model: the file must be exactly what the model writer produces for these members, and the
		// proven Lean reader must recover the same members as the Go reader (small packages only: byte lists)
		if len(data) <= e.segCap/4 && len(d.Members) > 0 {
			var req strings.Builder
			fmt.Fprintf(&req, "arfile %d %d", d.Members[0].MTime, len(d.Members))
			sameTime := true
			for _, m := range d.Members {
				fmt.Fprintf(&req, " %s %s", wire.H(m.Name), wire.H(string(m.Body)))
				sameTime = sameTime && m.MTime == d.Members[0].MTime
			}
			res.check(sameTime, "ar-member-times-differ", "the ar members carry different times")
			res.Checks = append(res.Checks, "arfile", "arread")
			ask(req.String(), func(ans string) {
				got, _ := wire.UnH(ans)
				if got != string(data) {
					res.f04("ar-bytes-differ-from-model", "the deb file differs from the ar model's rendering of its own members: "+c34FirstDiff(got, string(data)))
				}
			})
			ask("arread "+wire.H(string(data)), func(ans string) {
				var want strings.Builder
				fmt.Fprintf(&want, "%d", len(d.Members))
				for _, m := range d.Members {
					fmt.Fprintf(&want, " %s %d", wire.H(m.Name), len(m.Body))
				}
				if ans != want.String() {
					res.f04("ar-lean-reader-disagrees", fmt.Sprintf("the Lean ar reader answers %.200q, the Go reader found %.200q", ans, want.String()))
				}
			})
			// the whole file as Package.lean assembles it (Pkg.debFile: debian-binary, control.tar.gz, the data member
			// under its own name, then the signature member if any), with the package's own compressed archives as
			// what the compressors return
			if len(d.Members) == 3 || len(d.Members) == 4 {
				sigName, sigBody := "none", "-"
				if len(d.Members) == 4 {
					sigName, sigBody = "some "+wire.H(d.Members[3].Name), wire.H(string(d.Members[3].Body))
				}
				res.Checks = append(res.Checks, "pkgdeb")
				if res.TarBy == nil {
					res.TarBy = map[string]int{}
				}
				res.TarBy["deb:file-assembly:compared"]++
				ask(fmt.Sprintf("pkgdeb %d %s %s %s %s %s", d.Members[0].MTime, wire.H(d.Members[2].Name), wire.H(string(d.Members[1].Body)), wire.H(string(d.Members[2].Body)), sigName, sigBody), func(ans string) {
					got, _ := wire.UnH(ans)
					if got != string(data) {
						res.f04("deb-differs-from-package-model", "the deb file differs from the assembly of the package model (Pkg.debFile): "+c34FirstDiff(got, string(data)))
					}
				})
			}
		}
		res.check(d.GlobalHeaderOK, "ar-global-header", "the file does not start with the ar global header")
		res.check(d.Trailing == 0, "ar-trailing-bytes", "%d bytes follow the last complete ar member", d.Trailing)
		for _, m := range d.Members {
			res.check(m.Offset%2 == 0, "ar-member-at-odd-offset", "ar member %q starts at odd offset %d", m.Name, m.Offset)
		}
		tarModel("data", d.DataTar, d.Data)
		if ct, err := c34Gunzip(d.ControlRaw, true); err == nil {
			tarModel("control", ct, d.Control)
			// the control archive as deb.createControl assembles it (DebControl.lean; deb_scripts_in_control_archive):
			// control text, md5sums and trigger lines as found (C02 / C03 judge them), the conffiles list from the plan,
			// the configured maintainer scripts read from their files – member set, order, names, modes, times, bodies
			if plan, perr := RealPlan(s, "deb"); perr == nil && len(ct) <= e.segCap/4 {
				var confs []string
				for _, pc := range plan {
					if pc.Type == "config" || pc.Type == "config|noreplace" || pc.Type == "config|missingok" {
						confs = append(confs, pc.Dst)
					}
				}
				ctrlB, _ := d.ControlFile("control")
				md5B, _ := d.ControlFile("md5sums")
				trigB, _ := d.ControlFile("triggers")
				mt := int64(-1)
				for _, cm := range d.Control {
					mt = cm.MTime
					break
				}
				slots := [][2]string{{"config", info.Deb.Scripts.Config}, {"postinst", info.Scripts.PostInstall}, {"postrm", info.Scripts.PostRemove},
					{"preinst", info.Scripts.PreInstall}, {"prerm", info.Scripts.PreRemove}, {"rules", info.Deb.Scripts.Rules}, {"templates", info.Deb.Scripts.Templates}}
				var sc strings.Builder
				n, readable := 0, true
				for _, sl := range slots {
					if sl[1] == "" {
						continue
					}
					body, rerr := os.ReadFile(sl[1])
					if rerr != nil {
						readable = false
						break
					}
					n++
					fmt.Fprintf(&sc, " %s %s", wire.H(sl[0]), wire.H(string(body)))
				}
				if readable && mt >= 0 && (s.MTime == wire.ZeroTime || s.MTime == mt) {
					res.Checks = append(res.Checks, "debcontroltar")
					res.TarBy["deb:control:assembly-compared"]++
					ask(fmt.Sprintf("debcontroltar %d %s %s %s %s %d%s", mt, wire.H(string(ctrlB)), wire.H(string(md5B)), wire.H(strings.Join(confs, "\n")+"\n"), wire.H(string(trigB)), n, sc.String()), func(ans string) {
						got, _ := wire.UnH(ans)
						if got != string(ct) {
							res.f04("deb:control-archive-differs-from-model", "the control archive is not what the model of deb.createControl assembles from the control text, md5sums, the planned config files, the trigger lines and the configured script files (member set, order, names, modes, times or bodies differ): "+c34FirstDiff(got, string(ct)))
						}
					})
				} else if s.MTime != wire.ZeroTime && s.MTime != mt && mt >= 0 {
					res.f04("deb:control-archive-mtime", fmt.Sprintf("the members of the control archive carry mtime %d, the configured package mtime is %d", mt, s.MTime))
				}
			}
		}
		res.tarFacts("data", d.DataFacts, true)
		res.tarFacts("control", d.ControlFacts, true)
		res.stdTar("data", d.DataTar, len(d.Data))
		if ct, err := c34Gunzip(d.ControlRaw, true); err != nil {
			res.check(false, "control-stdlib-gzip-rejects", "compress/gzip does not read control.tar.gz: %v", err)
		} else {
			res.stdTar("control", ct, len(d.Control))
		}
		wantKind := map[string]string{"data.tar": "none", "data.tar.gz": "gzip", "data.tar.xz": "xz", "data.tar.zst": "zstd"}[d.DataName]
		res.check(wantKind != "" && c34Sniff(d.DataRaw) == wantKind, "data-member-compression-mismatch", "member %q starts with the magic of %q", d.DataName, c34Sniff(d.DataRaw))
		if wantKind == "gzip" {
			dt, err := c34Gunzip(d.DataRaw, true)
			res.check(err == nil && bytes.Equal(dt, d.DataTar), "data-stdlib-gzip-rejects", "compress/gzip does not read %s to the end: %v", d.DataName, err)
		}
		if wantKind == "xz" && e.xz != "" {
			if p, err := e.tmpFile(".tar.xz", d.DataRaw); err == nil {
				out, err := e.run(e.xz, "-t", p)
				res.check(err == nil, "xz-rejects-data", "xz -t rejects data.tar.xz: %v: %s", err, c10oneLine(out))
				_ = os.Remove(p)
			}
		}
		if e.dpkgDeb != "" {
			if p, err := e.tmpFile(".deb", data); err == nil {
				out, err := e.run(e.dpkgDeb, "--info", p)
				res.check(err == nil, "dpkg-deb-info-rejects", "dpkg-deb --info rejects the package: %v: %s", err, c10oneLine(out))
				out, err = e.run(e.dpkgDeb, "--contents", p)
				res.check(err == nil, "dpkg-deb-contents-rejects", "dpkg-deb --contents rejects the package: %v: %s", err, c10oneLine(out))
				if err == nil {
					lines := 0
					for _, ln := range strings.Split(out, "\n") {
						if ln != "" {
							lines++
						}
					}
					res.check(lines == len(d.Data), "dpkg-deb-contents-count", "dpkg-deb --contents lists %d members, the data tar holds %d", lines, len(d.Data))
				}
				_ = os.Remove(p)
			} else {
				res.Notes = append(res.Notes, "cannot write scratch deb: "+err.Error())
			}
		}

	case "ipk":
		p := dec.Ipk
		res.Members = len(p.Data)
		ctrl, hasCtrl := p.ControlFile("control")
		if !hasCtrl {
			res.f04("no-control-member", "the control archive has no control member")
		}
		inst, hasInst := c34Field(ctrl, "Installed-Size")
		res.Checks = append(res.Checks, "c03ipk")
		ask(fmt.Sprintf("c03ipk %s %s", c34Opt(inst, hasInst), c34SMList(p.Data)), func(ans string) {
			res.verdict("C03", "", "Installed-Size of the ipk against the data tar as shipped", "c03ipk", ans, func(string) string {
				return fmt.Sprintf("control says Installed-Size %q (present=%v)", inst, hasInst)
			})
		})
		names(true, "data", p.Data)
		names(true, "control", p.Control)
		names(true, "outer", p.Outer)
		simple("C04", "", fmt.Sprintf("outer members %q of the ipk", c34EntryNames(p.Outer)),
			fmt.Sprintf("c04ipk %s %s", c34HexList(c34EntryNames(p.Outer)), wire.H(string(p.DebianBinary))))
		tarModel("data", p.DataTar, p.Data)
		tarModel("outer", p.OuterTar, p.Outer)
		// the outer archive as Package.lean assembles it (Pkg.ipkOuter: three GNU members, mode 0644, one time),
		// with the package's own compressed inner archives as what the compressor returns
		if len(p.OuterTar) > 0 && len(p.OuterTar) <= e.segCap/4 && len(p.Outer) == 3 && p.Outer[0].MTime >= 0 {
			res.Checks = append(res.Checks, "pkgipkouter")
			if res.TarBy == nil {
				res.TarBy = map[string]int{}
			}
			res.TarBy["ipk:outer-assembly:compared"]++
			outer := p.OuterTar
			ask(fmt.Sprintf("pkgipkouter %d %s %s", p.Outer[0].MTime, wire.H(string(p.ControlRaw)), wire.H(string(p.DataRaw))), func(ans string) {
				got, _ := wire.UnH(ans)
				if got != string(outer) {
					res.f04("outer-tar-differs-from-package-model", "the outer tar of the ipk differs from the assembly of the package model (Pkg.ipkOuter): "+c34FirstDiff(got, string(outer)))
				}
			})
		}
		if ct, err := c34Gunzip(p.ControlRaw, true); err == nil {
			tarModel("control", ct, p.Control)
			// the control archive as ipk.populateControlTar assembles it (ipk_scripts_in_control_archive)
			if plan, perr := RealPlan(s, "ipk"); perr == nil && len(ct) <= e.segCap/4 {
				var confs []string
				for _, pc := range plan {
					if pc.Type == "config" || pc.Type == "config|noreplace" || pc.Type == "config|missingok" {
						confs = append(confs, pc.Dst)
					}
				}
				ctrlB, _ := p.ControlFile("control")
				mt := int64(-1)
				for _, cm := range p.Control {
					mt = cm.MTime
					break
				}
				slots := [][2]string{{"preinst", info.Scripts.PreInstall}, {"postinst", info.Scripts.PostInstall}, {"prerm", info.Scripts.PreRemove}, {"postrm", info.Scripts.PostRemove}}
				var sc strings.Builder
				n, readable := 0, true
				for _, sl := range slots {
					if sl[1] == "" {
						continue
					}
					body, rerr := os.ReadFile(sl[1])
					if rerr != nil {
						readable = false
						break
					}
					n++
					fmt.Fprintf(&sc, " %s %s", wire.H(sl[0]), wire.H(string(body)))
				}
				if readable && mt >= 0 && (s.MTime == wire.ZeroTime || s.MTime == mt) {
					res.Checks = append(res.Checks, "ipkcontroltar")
					res.TarBy["ipk:control:assembly-compared"]++
					ask(fmt.Sprintf("ipkcontroltar %d %s %s %d%s", mt, wire.H(string(ctrlB)), wire.H(strings.Join(confs, "\n")+"\n"), n, sc.String()), func(ans string) {
						got, _ := wire.UnH(ans)
						if got != string(ct) {
							res.f04("ipk:control-archive-differs-from-model", "the control archive is not what the model of ipk.populateControlTar assembles from the control text, the planned config files and the configured script files (member set, order, names, modes, times or bodies differ): "+c34FirstDiff(got, string(ct)))
						}
					})
				} else if s.MTime != wire.ZeroTime && s.MTime != mt && mt >= 0 {
					res.f04("ipk:control-archive-mtime", fmt.Sprintf("the members of the control archive carry mtime %d, the configured package mtime is %d", mt, s.MTime))
				}
			}
		}
		res.tarFacts("outer", p.OuterFacts, true)
		res.tarFacts("data", p.DataFacts, true)
		res.tarFacts("control", p.ControlFacts, true)
		if ot, err := c34Gunzip(data, true); err != nil {
			res.check(false, "outer-stdlib-gzip-rejects", "compress/gzip does not read the ipk: %v", err)
		} else {
			res.check(bytes.Equal(ot, p.OuterTar), "outer-stdlib-gzip-rejects", "compress/gzip reads %d bytes, the independent reader %d", len(ot), len(p.OuterTar))
			res.stdTar("outer", ot, len(p.Outer))
		}
		res.stdTar("data", p.DataTar, len(p.Data))
		if ct, err := c34Gunzip(p.ControlRaw, true); err != nil {
			res.check(false, "control-stdlib-gzip-rejects", "compress/gzip does not read control.tar.gz: %v", err)
		} else {
			res.stdTar("control", ct, len(p.Control))
		}
		if _, err := c34Gunzip(p.DataRaw, true); err != nil {
			res.check(false, "data-stdlib-gzip-rejects", "compress/gzip does not read data.tar.gz: %v", err)
		}

	case "apk":
		a := dec.Apk
		nseg := len(a.Segments)
		dataSeg := a.Segments[nseg-1]
		res.Members = len(dataSeg.Entries)
		var pkginfo []byte
		hasInfo := false
		if nseg >= 2 {
			for _, en := range a.Segments[nseg-2].Entries {
				if en.Name == ".PKGINFO" {
					pkginfo, hasInfo = en.Body, true
					break
				}
			}
		}
		if !hasInfo {
			res.f04("no-pkginfo", fmt.Sprintf("no .PKGINFO in the segment before the data segment (%d segments)", nseg))
		}
		dh, hasDh := c34KV(pkginfo, "datahash")
		sz, hasSz := c34KV(pkginfo, "size")
		segSum := sha256.Sum256(dataSeg.Raw)
		res.Checks = append(res.Checks, "c03apk")
		ask(fmt.Sprintf("c03apk %s %s %s %s", c34Opt(dh, hasDh), wire.H(string(segSum[:])), c34Opt(sz, hasSz), c34SMList(dataSeg.Entries)), func(ans string) {
			res.verdict("C03", "", "datahash / size / per-file SHA-1 records of the apk against the data segment as shipped", "c03apk", ans, func(head string) string {
				switch head {
				case "datahash-differs":
					return fmt.Sprintf(".PKGINFO datahash %q, SHA-256 of the %d-byte data segment as shipped %x", dh, len(dataSeg.Raw), segSum)
				case "size-differs":
					return fmt.Sprintf(".PKGINFO size %q (present=%v)", sz, hasSz)
				}
				return ""
			})
		})
		names(false, "data", dataSeg.Entries)
		if nseg >= 2 {
			names(false, "control", a.Segments[nseg-2].Entries)
		}
		signed := info.APK.Signature.KeyFile != "" || info.APK.Signature.SignFn != nil
		var sb strings.Builder
		fmt.Fprintf(&sb, "c04apk %s %d %d", wire.B(signed), a.Trailing, nseg)
		for _, sg := range a.Segments {
			after := 0
			if sg.Facts.EndMarkerAt >= 0 {
				after = sg.Facts.Len - sg.Facts.EndMarkerAt - 1024
			}
			first := ""
			if len(sg.Entries) > 0 {
				first = sg.Entries[0].Name
			}
			fmt.Fprintf(&sb, " %s %s %d %d %s", wire.B(sg.Facts.Aligned512), wire.B(sg.Facts.EndMarkerAt >= 0), after, sg.Facts.Members, wire.H(first))
		}
		simple("C04", "", "gzip segments of the apk", sb.String())
		total := 0
		for i, sg := range a.Segments {
			which := fmt.Sprintf("segment%d", i)
			if k := i + 3 - nseg; k >= 0 && k < 3 && nseg <= 3 {
				which = []string{"signature-segment", "control-segment", "data-segment"}[k]
			}
			res.tarFacts(which, sg.Facts, i == nseg-1)
			res.stdTar(which, sg.Tar, len(sg.Entries))
			total += len(sg.Entries)
			if i == nseg-1 {
				res.check(sg.Facts.TrailingZeroes >= 0, "data-segment-garbage-after-end", "non-zero bytes follow the end-of-archive marker of the data segment")
			}
			// byte-level tar model of the segment's members (a cut segment is completed with the end marker the model
			// writer always emits, so that what is compared is exactly the member bytes)
			if i == nseg-1 {
				tarModel(which, sg.Tar, sg.Entries)
			} else {
				tarModel(which, append(append([]byte{}, sg.Tar...), make([]byte, 1024)...), sg.Entries)
			}
			// the control segment as apk.createBuilderControl assembles it (ApkControl.lean; apk_scripts_in_control_segment):
			// .PKGINFO as found (C02 / C03 judge it), the configured scripts read from their files, their checksum records
			// recomputed here – member set, order, names, modes, times, records, bodies
			if which == "control-segment" && len(sg.Tar) <= e.segCap/4 {
				var pk []byte
				for _, en := range sg.Entries {
					if en.Name == ".PKGINFO" {
						pk = en.Body
					}
				}
				slots := [][2]string{{".post-deinstall", info.Scripts.PostRemove}, {".post-install", info.Scripts.PostInstall}, {".post-upgrade", info.APK.Scripts.PostUpgrade},
					{".pre-deinstall", info.Scripts.PreRemove}, {".pre-install", info.Scripts.PreInstall}, {".pre-upgrade", info.APK.Scripts.PreUpgrade}}
				var sc strings.Builder
				n, usable := 0, true
				for _, sl := range slots {
					if sl[1] == "" {
						continue
					}
					st, serr := os.Stat(sl[1])
					body, rerr := os.ReadFile(sl[1])
					if serr != nil || rerr != nil || st.ModTime().Nanosecond() != 0 {
						usable = false // a sub-second mtime travels in a PAX mtime record: outside the model
						break
					}
					h := sha1.Sum(body)
					n++
					fmt.Fprintf(&sc, " %s %s %d %s", wire.H(sl[0]), wire.H(string(body)), st.ModTime().Unix(), wire.H(hex.EncodeToString(h[:])))
				}
				if usable {
					res.Checks = append(res.Checks, "apkcontrolseg")
					res.TarBy["apk:control:assembly-compared"]++
					tarb := sg.Tar
					pkMT := int64(0)
					if s.MTime != wire.ZeroTime {
						pkMT = s.MTime
					} else if os.Getenv("SOURCE_DATE_EPOCH") != "" {
						pkMT, _ = strconv.ParseInt(os.Getenv("SOURCE_DATE_EPOCH"), 10, 64)
					}
					ask(fmt.Sprintf("apkcontrolseg %s %d %d%s", wire.H(string(pk)), pkMT, n, sc.String()), func(ans string) {
						got, _ := wire.UnH(ans)
						if got != string(tarb) {
							res.f04("apk:control-segment-differs-from-model", "the control segment is not what the model of apk.createBuilderControl assembles from .PKGINFO and the configured script files (member set, order, names, modes, times, checksum records or bodies differ): "+c34FirstDiff(got, string(tarb)))
						}
					})
				} else {
					res.TarBy["apk:control:assembly-skipped-subsecond-script-mtime"]++
				}
			}
			// model of apk.writeTgz
			if len(sg.Tar) > e.segCap {
				res.SegSkip++
				continue
			}
			end, ok := c34LastDataEnd(sg.Tar)
			if !ok {
				res.check(false, which+"-tar-unwalkable", "cannot walk the blocks of %s", which)
				continue
			}
			pad := (512 - end%512) % 512
			full, tarb, w := i == nseg-1, sg.Tar, which
			res.SegCompared++
			ask(fmt.Sprintf("tgzstream %s %d 1 %s", wire.B(full), pad, wire.H(string(tarb[:end]))), func(ans string) {
				if strings.HasPrefix(ans, "bad-op") || strings.HasPrefix(ans, "violated") {
					if res.Err == nil {
						res.Err = fmt.Errorf("driver answered %q to tgzstream", c34Short(ans, 200))
					}
					return
				}
				if ans != wire.H(string(tarb)) {
					m, _ := wire.UnH(ans)
					res.f04("segment-differs-from-model", fmt.Sprintf("%s (full=%v): the model of apk.writeTgz yields %d bytes for the %d bytes of members (+%d padding owed), the package ships %d bytes; common prefix %d bytes",
						w, full, len(m), end, pad, len(tarb), c34CommonPrefix(m, string(tarb))))
				}
			})
		}
		if all, err := c34Gunzip(data, true); err != nil {
			res.check(false, "stdlib-gzip-multistream-rejects", "compress/gzip (multistream) does not read the whole apk: %v", err)
		} else {
			n, err := c34TarStrict(all)
			res.check(err == nil, "concatenation-stdlib-tar-rejects", "archive/tar does not read the concatenation of all segments to io.EOF: %v", err)
			if err == nil {
				res.check(n == total, "concatenation-member-count", "archive/tar reads %d members from the concatenated segments, the segments hold %d", n, total)
			}
		}

	case "archlinux":
		a := dec.Arch
		idx := -1
		for i, en := range a.Entries {
			if en.Name == ".PKGINFO" {
				idx = i
				break
			}
		}
		if idx < 0 {
			res.f04("no-pkginfo", fmt.Sprintf("no .PKGINFO member among %q", c34EntryNames(a.Entries)))
			break
		}
		payload := a.Entries[:idx]
		res.Members = len(payload)
		var sz string
		hasSz := false
		for _, kv := range a.Pkginfo {
			if kv.Key == "size" {
				sz, hasSz = kv.Value, true
				break
			}
		}
		pk, list := c34SMEntry(a.Entries[idx]), c34SMList(payload)
		res.Checks = append(res.Checks, "c03arch")
		ask(fmt.Sprintf("c03arch %s %s %s %s", wire.H(string(a.MtreeRaw)), c34Opt(sz, hasSz), pk, list), func(ans string) {
			res.verdict("C03", "", ".MTREE / size of the archlinux package against the members as shipped", "c03arch", ans, func(head string) string {
				switch head {
				case "mtree-differs":
					follow = append(follow, c34Query{fmt.Sprintf("c03mtree %s %s", pk, list), func(x string) {
						want, _ := wire.UnH(x)
						d := c34FirstDiff(want, string(a.MtreeRaw))
						for i := range res.C03 {
							if strings.HasSuffix(res.C03[i].Shape, ":mtree-differs") {
								res.C03[i].Shape += "/" + c34DiffClass(want, string(a.MtreeRaw), c34MtreeSplit)
								res.C03[i].What += " — " + d
							}
						}
					}})
				case "size-differs":
					return fmt.Sprintf(".PKGINFO size %q (present=%v)", sz, hasSz)
				}
				return ""
			})
		})
		names(false, "data", payload)
		hasScripts := info.Scripts.PreInstall != "" || info.Scripts.PostInstall != "" || info.Scripts.PreRemove != "" || info.Scripts.PostRemove != "" ||
			info.ArchLinux.Scripts.PreUpgrade != "" || info.ArchLinux.Scripts.PostUpgrade != ""
		simple("C04", "", fmt.Sprintf("member order of the archlinux package (scripts configured: %v; tail %q)", hasScripts, c34EntryNames(a.Entries[idx:])),
			fmt.Sprintf("c04arch %s %s", wire.B(hasScripts), c34HexList(c34EntryNames(a.Entries))))
		res.tarFacts("package", a.Facts, true)
		res.stdTar("package", a.Tar, len(a.Entries))
		tarModel("package", a.Tar, a.Entries)
		res.check(a.MtreeGz != nil, "no-mtree", "no .MTREE member")
		res.check(a.MtreeHeaderOK, "mtree-header", ".MTREE does not start with the line #mtree")
		res.check(len(a.Mtree) > 0 && a.Mtree[0].Path == "./.PKGINFO", "mtree-first-line-not-pkginfo", ".MTREE does not list ./.PKGINFO first")
		// mtree(5): a line is a path word followed by keyword=value words, separated by blanks; nothing else
		{
			known := map[string]bool{"time": true, "mode": true, "size": true, "type": true, "md5digest": true, "sha256digest": true, "link": true}
			for li, line := range strings.Split(strings.TrimSuffix(string(a.MtreeRaw), "\n"), "\n") {
				if li == 0 && line == "#mtree" {
					continue
				}
				words := strings.Split(line, " ")
				ok := strings.HasPrefix(words[0], "./")
				for _, w := range words[1:] {
					k, _, has := strings.Cut(w, "=")
					ok = ok && has && known[k]
				}
				if !ok {
					res.check(false, "mtree-line-not-a-path-and-keywords", ".MTREE line %d is not a path followed by keyword=value words: %q", li+1, line)
					break
				}
			}
		}
		if a.MtreeGz != nil {
			mt, err := c34Gunzip(a.MtreeGz, true)
			res.check(err == nil && bytes.Equal(mt, a.MtreeRaw), "mtree-stdlib-gzip-rejects", "compress/gzip does not read .MTREE to the end: %v", err)
		}
		res.check(c34Sniff(data) == "zstd", "not-zstd", "the package does not start with the zstd magic")

	case "rpm":
		x := dec.Rpm
		res.Members = len(x.Files)
		cp := map[string]int{}
		var cpNames []string
		for i, ce := range x.Cpio {
			n := c34CanonRpmName(ce.Name)
			if _, dup := cp[n]; dup {
				res.f04("duplicate-cpio-entry", fmt.Sprintf("the payload holds two entries named %q", n))
			}
			cp[n] = i
			cpNames = append(cpNames, n)
			// every entry is a real path: absolute, lexically clean, not the root itself, not empty
			if n == "" || n == "/" || n[0] != '/' || path.Clean(n) != n {
				res.f04("cpio-entry-name-not-a-clean-absolute-path", fmt.Sprintf("the payload holds an entry named %q", ce.Name))
			}
		}
		for _, f := range x.Files {
			if n := f.Name; n == "" || n == "/" || n[0] != '/' || path.Clean(n) != n {
				res.f04("header-file-name-not-a-clean-absolute-path", fmt.Sprintf("the header lists a file named %q", f.Name))
			}
		}
		hs, ps := sha256.Sum256(x.HeaderRaw), sha256.Sum256(x.PayloadRaw)
		sig := func(tag int) (decode.RpmTag, bool) { t, ok := x.Sig[tag]; return t, ok }
		hdr := func(tag int) (decode.RpmTag, bool) { t, ok := x.Hdr[tag]; return t, ok }
		var b strings.Builder
		fmt.Fprintf(&b, "c03rpm %s %s %s %s %s %s %d %d %s %s %d", c34OptStr(sig(273)), wire.H(string(hs[:])), c34OptStr(hdr(5092)), c34OptNat(hdr(5093)),
			wire.H(string(ps[:])), c34OptNat(sig(1000)), len(x.HeaderRaw), len(x.PayloadRaw), c34OptNat(sig(1007)), c34OptNat(hdr(1009)), len(x.Files))
		algos := x.Hdr[5011].Ints
		var hb strings.Builder
		fmt.Fprintf(&hb, "c04rpm %d", len(x.Files))
		for i, f := range x.Files {
			n := c34CanonRpmName(f.Name)
			algo := "none"
			if i < len(algos) {
				algo = fmt.Sprintf("some %d", algos[i])
			}
			cpio := "none"
			if ci, ok := cp[n]; ok {
				ce := x.Cpio[ci]
				cpio = "some " + c34SM(n, c34CpioKind(ce.Mode), int64(ce.Mode), int64(ce.MTime), int64(ce.Size), "", ce.Body, "", false)
			}
			ghost := f.Flags&64 != 0
			fmt.Fprintf(&b, " %s %d %s %d %s %s %s %s", wire.H(n), c34CpioKind(f.Mode), wire.B(ghost), f.Size, wire.H(f.Digest), algo, wire.H(f.Linkto), cpio)
			fmt.Fprintf(&hb, " %s %s", wire.H(n), wire.B(ghost))
		}
		fmt.Fprintf(&hb, " %s", c34HexList(cpNames))
		simple("C03", "", "digest and size tags of the rpm against header and payload as shipped", b.String())
		simple("C04", "", "header file list against the cpio payload of the rpm", hb.String())
		res.check(x.LeadOK, "lead-magic", "the lead does not start with ed ab ee db")
		res.check(x.SigOffset == 96, "signature-header-offset", "the signature header starts at %d, not 96", x.SigOffset)
		res.check(x.SigPadOK, "signature-header-padding", "the signature header is not padded to an 8-byte boundary")
		res.check(x.HeaderOffset%8 == 0, "header-not-8-aligned", "the main header starts at offset %d", x.HeaderOffset)
		// byte-level cpio model: the decompressed payload must be exactly what the model writer renders from the
		// payload's own decoded entries (inodes 1.., hex fields, name/body padding, trailer), and the Lean reader
		// must recover the same entries as the Go reader
		if len(x.Payload) > 0 && len(x.Payload) <= e.segCap/4 {
			var req, want strings.Builder
			fmt.Fprintf(&req, "cpiofile %d", len(x.Cpio))
			fmt.Fprintf(&want, "%d", len(x.Cpio))
			for _, ce := range x.Cpio {
				fmt.Fprintf(&req, " %s %d %d %s", wire.H(ce.Name), ce.Mode, ce.Nlink, wire.H(string(ce.Body)))
				fmt.Fprintf(&want, " %d %s %d %d %d", ce.Ino, wire.H(ce.Name), ce.Mode, ce.Nlink, len(ce.Body))
			}
			res.TarCompared++
			res.Checks = append(res.Checks, "cpiofile", "cpioread")
			ask(req.String(), func(ans string) {
				got, _ := wire.UnH(ans)
				if got != string(x.Payload) {
					res.f04("cpio-bytes-differ-from-model", "the cpio payload differs from the cpio model's rendering of its own entries: "+c34FirstDiff(got, string(x.Payload)))
				}
			})
			ask("cpioread "+wire.H(string(x.Payload)), func(ans string) {
				if ans != want.String() {
					res.f04("cpio-lean-reader-disagrees", fmt.Sprintf("the Lean cpio reader answers %.300q, the Go reader found %.300q", ans, want.String()))
				}
			})
		} else if len(x.Payload) > 0 {
			res.TarSkipped++
		}
		// byte-level rpm file model (lead, signature header padded to 8, header, payload; model of rpmpack's index
		// writer): the package must be exactly what the model writer renders from its own decoded header entries, and
		// the Lean reader proved correct for that model (RpmHdr.readFile_file) must recover what the Go reader found
		if len(data) <= e.segCap/4 {
			encEntries := func(tags map[int]decode.RpmTag, order []int, region int) (string, bool) {
				var b strings.Builder
				n := 0
				for i, tg := range order {
					if i == 0 && tg == region {
						continue
					}
					n++
				}
				fmt.Fprintf(&b, "%d", n)
				for i, tg := range order {
					if i == 0 && tg == region {
						continue
					}
					t := tags[tg]
					var d []byte
					switch t.Type {
					case 3:
						for _, v := range t.Ints {
							d = append(d, byte(v>>8), byte(v))
						}
					case 4:
						for _, v := range t.Ints {
							d = append(d, byte(v>>24), byte(v>>16), byte(v>>8), byte(v))
						}
					case 6, 8:
						for _, sv := range t.Strs {
							d = append(append(d, sv...), 0)
						}
					case 7:
						d = t.Bin
					default:
						return "", false
					}
					fmt.Fprintf(&b, " %d %d %d %s", t.Tag, t.Type, t.Count, wire.H(string(d)))
				}
				return b.String(), true
			}
			sigE, ok1 := encEntries(x.Sig, x.SigOrder, 62)
			hdrE, ok2 := encEntries(x.Hdr, x.HdrOrder, 63)
			if ok1 && ok2 {
				res.TarCompared++
				if res.TarBy == nil {
					res.TarBy = map[string]int{}
				}
				res.TarBy["rpm:file:compared"]++
				res.Checks = append(res.Checks, "rpmfile", "rpmfileread")
				ask(fmt.Sprintf("rpmfile %s %s %s %s", wire.H(x.LeadName), sigE, hdrE, wire.H(string(x.PayloadRaw))), func(ans string) {
					got, _ := wire.UnH(ans)
					if got != string(data) {
						res.f04("rpm-bytes-differ-from-model", "the rpm file differs from the model's rendering of its own lead name, header entries and payload: "+c34FirstDiff(got, string(data)))
					}
				})
				want := fmt.Sprintf("%s %s %s %d %d %d", wire.H(x.LeadName), sigE, hdrE, x.HeaderOffset, len(x.HeaderRaw), len(x.PayloadRaw))
				ask("rpmfileread "+wire.H(string(data)), func(ans string) {
					if ans != want {
						res.f04("rpm-lean-reader-disagrees", fmt.Sprintf("the Lean rpm reader answers %.300q, the Go reader found %.300q", ans, want))
					}
				})
			} else {
				res.TarSkipped++
				if res.TarBy == nil {
					res.TarBy = map[string]int{}
				}
				res.TarBy["rpm:file:skipped-entry-type-outside-model"]++
			}
		} else {
			res.TarSkipped++
			if res.TarBy == nil {
				res.TarBy = map[string]int{}
			}
			res.TarBy["rpm:file:skipped-size"]++
		}
		// what the rpm states about its own bytes (model of rpmpack's writeSignatures / payload digest, RpmSig.lean;
		// theorem rpm_self_description_covers_shipped_bytes): SHA256, SIZE and PAYLOADSIZE of the signature header and
		// the payload digest entries of the main header, recomputed here from the regions of the file as shipped
		{
			hsum := sha256.Sum256(x.HeaderRaw)
			psum := sha256.Sum256(x.PayloadRaw)
			payloadSize := 0
			for _, ce := range x.Cpio {
				payloadSize += len(ce.Body)
			}
			encTag := func(t decode.RpmTag) string {
				var d []byte
				switch t.Type {
				case 4:
					for _, v := range t.Ints {
						d = append(d, byte(v>>24), byte(v>>16), byte(v>>8), byte(v))
					}
				case 6, 8:
					for _, sv := range t.Strs {
						d = append(append(d, sv...), 0)
					}
				case 7:
					d = t.Bin
				}
				return fmt.Sprintf(" %d %d %d %s", t.Tag, t.Type, t.Count, wire.H(string(d)))
			}
			var want strings.Builder
			n := 0
			for _, tg := range []int{273, 1000, 1007} {
				if t, ok := x.Sig[tg]; ok {
					n++
					want.WriteString(encTag(t))
				}
			}
			for _, tg := range []int{5092, 5093} {
				if t, ok := x.Hdr[tg]; ok {
					n++
					want.WriteString(encTag(t))
				}
			}
			wantS := fmt.Sprintf("%d%s", n, want.String())
			res.Checks = append(res.Checks, "rpmsig")
			ask(fmt.Sprintf("rpmsig %s %d %d %d %s", wire.H(hex.EncodeToString(hsum[:])), len(x.HeaderRaw), len(x.PayloadRaw), payloadSize, wire.H(hex.EncodeToString(psum[:]))), func(ans string) {
				if ans != wantS {
					res.f03("rpm-self-description-differs-from-model", "the SHA256 / SIZE / PAYLOADSIZE entries of the signature header or the payload digest entries of the main header are not what the model of rpmpack computes from the header and payload regions as shipped: "+c34FirstDiff(ans, wantS))
				}
			})
			_, hasRSA := x.Sig[268]
			_, hasPGP := x.Sig[1002]
			res.check(hasRSA == hasPGP, "rpm-one-signature-without-the-other", "signature header has RSA (268) = %v but PGP (1002) = %v", hasRSA, hasPGP)
		}
		// the file list of the header (model of rpmpack's writeFile / writeFileIndexes, RpmFiles.lean): the sixteen
		// per-file entries of the real header must be exactly what the model writes for the files the independent
		// reader found – with sizes, digests and link targets recomputed here from the cpio bodies as shipped – and the
		// Lean reader of the file list (proved to invert the model, RpmFiles.readFiles_of_lookup) must recover the rows
		if len(x.Files) > 0 && len(x.Payload) <= e.segCap {
			bodies := map[string][]byte{}
			for _, ce := range x.Cpio {
				bodies[ce.Name] = ce.Body
			}
			var req strings.Builder
			fmt.Fprintf(&req, "rpmfiletags %d", len(x.Files))
			for _, rf := range x.Files {
				body, shipped := bodies[rf.Name]
				sum := sha256.Sum256(body)
				size, digest, link := uint64(len(body)), hex.EncodeToString(sum[:]), string(body)
				if !shipped && rf.Flags&64 != 0 {
					// a ghost ships no body: what its row says about size, digest and link target describes the file the
					// packager was shown at build time (rpmpack, like rpmbuild, records the source's), nothing in the package
					// can confirm or refute it – taken as found; the encoding of the row is still the model's
					size, digest, link = rf.Size, rf.Digest, rf.Linkto
					if res.TarBy == nil {
						res.TarBy = map[string]int{}
					}
					res.TarBy["rpm:file-list:ghost-row-values-as-found"]++
				}
				fmt.Fprintf(&req, " %s %d %d %s %s %d %d %s %s", wire.H(rf.Name), rf.Mode, rf.Flags, wire.H(rf.User), wire.H(rf.Group), rf.MTime,
					size, wire.H(digest), wire.H(link))
			}
			fileTags := []int{1028, 1030, 1033, 1034, 1035, 1036, 1037, 1039, 1040, 1045, 1096, 1097, 1116, 1117, 1118, 5011}
			var want strings.Builder
			fmt.Fprintf(&want, "%d", len(fileTags))
			okTags := true
			for _, tg := range fileTags {
				t, present := x.Hdr[tg]
				if !present {
					okTags = false
					res.f04("rpm-file-entry-missing", fmt.Sprintf("the main header lists %d files but has no entry with tag %d", len(x.Files), tg))
					break
				}
				var d []byte
				switch t.Type {
				case 3:
					for _, v := range t.Ints {
						d = append(d, byte(v>>8), byte(v))
					}
				case 4:
					for _, v := range t.Ints {
						d = append(d, byte(v>>24), byte(v>>16), byte(v>>8), byte(v))
					}
				case 6, 8:
					for _, sv := range t.Strs {
						d = append(append(d, sv...), 0)
					}
				default:
					okTags = false
				}
				fmt.Fprintf(&want, " %d %d %d %s", t.Tag, t.Type, t.Count, wire.H(string(d)))
			}
			if okTags {
				if res.TarBy == nil {
					res.TarBy = map[string]int{}
				}
				res.TarBy["rpm:file-list:compared"]++
				res.Checks = append(res.Checks, "rpmfiletags", "rpmfilerows")
				ask(req.String(), func(ans string) {
					if ans != want.String() {
						res.f04("rpm-file-list-differs-from-model", "the per-file header entries differ from what the model of rpmpack writes for the files found (names, sizes and digests of the cpio bodies as shipped): "+c34FirstDiff(ans, want.String()))
					}
				})
				var rows strings.Builder
				fmt.Fprintf(&rows, "%d", len(x.Files))
				for _, rf := range x.Files {
					fmt.Fprintf(&rows, " %s %d %d %d %s %s %d %s %s", wire.H(rf.Name), rf.Size, rf.Mode, rf.MTime, wire.H(rf.Digest), wire.H(rf.Linkto), rf.Flags, wire.H(rf.User), wire.H(rf.Group))
				}
				ask("rpmfilerows "+want.String(), func(ans string) {
					if ans != rows.String() {
						res.f04("rpm-file-list-lean-reader-disagrees", fmt.Sprintf("the Lean reader of the header's file list answers %.300q, the Go reader found %.300q", ans, rows.String()))
					}
				})
			}
		}
		res.check(x.CpioTrailerOK, "cpio-no-trailer", "the cpio payload has no TRAILER!!! entry")
		rest := x.CpioRest
		if rest < 0 || rest > len(x.Payload) {
			rest = 0
		}
		zero := true
		for _, c := range x.Payload[len(x.Payload)-rest:] {
			if c != 0 {
				zero = false
				break
			}
		}
		res.check(zero, "cpio-garbage-after-trailer", "non-zero bytes among the %d bytes after the cpio trailer", x.CpioRest)
		want := strings.SplitN(info.RPM.Compression, ":", 2)[0]
		if want == "" {
			want = "gzip"
		}
		res.check(x.PayloadCompressor == want, "payload-compressor-tag", "PAYLOADCOMPRESSOR is %q, configured compression %q", x.PayloadCompressor, info.RPM.Compression)
		res.check(c34Sniff(x.PayloadRaw) == want, "payload-compression-mismatch", "the payload starts with the magic of %q, configured compression %q", c34Sniff(x.PayloadRaw), info.RPM.Compression)
		if want == "gzip" {
			pl, err := c34Gunzip(x.PayloadRaw, true)
			res.check(err == nil && bytes.Equal(pl, x.Payload), "payload-stdlib-gzip-rejects", "compress/gzip does not read the payload to the end: %v", err)
		}
		res.check(len(data) == x.HeaderOffset+len(x.HeaderRaw)+len(x.PayloadRaw), "regions-do-not-cover-file", "lead+signature+header+payload cover %d of %d bytes", x.HeaderOffset+len(x.HeaderRaw)+len(x.PayloadRaw), len(data))
	}

	for len(qs) > 0 && res.Err == nil {
		reqs := make([]string, len(qs))
		for i, q := range qs {
			reqs[i] = q.req
		}
		ans, err := e.c.D.Batch(reqs)
		if err != nil {
			res.Err = err
			return dec
		}
		for i, q := range qs {
			q.on(ans[i])
		}
		qs, follow = follow, nil
	}
	return dec
}

func c34CommonPrefix(a, b string) int {
	n := 0
	for n < len(a) && n < len(b) && a[n] == b[n] {
		n++
	}
	return n
}

// ---------------------------------------------------------------------------
// running a family
// ---------------------------------------------------------------------------

func c34ErrKind(err error) string {
	msg := err.Error()
	switch {
	case strings.Contains(msg, "compress"):
		return "compression"
	case planErrClass(err) != "" && planErrClass(err) != "other":
		return planErrClass(err)
	case strings.Contains(msg, "sign"):
		return "signing"
	}
	return "other"
}

// shapeClass summarises the payload that was actually shipped.
func c34ShapeClass(format string, dec []wire.Member, bodies [][]byte) string {
	var reg, dir, sym, empty, big int
	for i, m := range dec {
		switch m.Kind {
		case '5':
			dir++
		case '2':
			sym++
		default:
			reg++
			if i < len(bodies) {
				if len(bodies[i]) == 0 {
					empty++
				}
				if len(bodies[i]) >= 128<<10 {
					big++
				}
			}
		}
	}
	s := fmt.Sprintf("f%d-d%d-l%d", bucket(reg), bucket(dir), bucket(sym))
	if reg == 0 {
		s = fmt.Sprintf("f0-d%d-l%d", bucket(dir), bucket(sym))
	}
	if empty > 0 {
		s += "-E"
	}
	if big > 0 {
		s += "-B"
	}
	return s
}

func (e *c34Env) one(fam string, cs c34Case) *c34Result {
	s, f := cs.S, cs.Format
	in := s.Input()
	in["format"], in["case"], in["seed"], in["tier"] = f, cs.Label, e.c.Seed, e.c.Tier
	res := &c34Result{Format: f, In: in, fam: fam}
	info := s.Info()
	comp := ""
	switch f {
	case "deb":
		comp = "deb/" + info.Deb.Compression
	case "rpm":
		comp = "rpm/" + info.RPM.Compression
	}
	signed := "no"
	switch {
	case f == "deb" && info.Deb.Signature.KeyFile != "":
		m := info.Deb.Signature.Method
		if m == "" {
			m = "debsign"
		}
		signed = "deb/" + m + "/" + info.Deb.Signature.Type
	case f == "rpm" && info.RPM.Signature.KeyFile != "":
		signed = "rpm/pgp"
	case f == "apk" && info.APK.Signature.KeyFile != "":
		signed = "apk/rsa"
	}
	nscripts := 0
	for _, sel := range scriptSelectors[f] {
		if c34Script(info, sel) != "" {
			nscripts++
		}
	}
	res.Labels = append(res.Labels, "format:"+f, "signed:"+signed, "class:"+cs.Class, fmt.Sprintf("scripts:%s/%d", f, nscripts))
	if comp != "" {
		res.Labels = append(res.Labels, "compression:"+comp)
	}
	if info.Changelog != "" && (f == "deb" || f == "rpm") {
		res.Labels = append(res.Labels, "changelog:"+f)
	}
	if s.MTime == wire.ZeroTime {
		res.Labels = append(res.Labels, "mtime:unset")
	} else {
		res.Labels = append(res.Labels, "mtime:set")
	}
	if cs.Clock != "" {
		in["clock"] = "built while the sub-second part of the wall clock was " + map[string]string{"low": "below 0.3 s", "high": "between 0.6 s and 0.9 s"}[cs.Clock]
		res.Labels = append(res.Labels, "clock:"+cs.Clock)
		c34AwaitClock(cs.Clock)
	}
	data, err := BuildPkg(f, s.Info())
	if err != nil {
		res.BuildErr = err
		kind := c34ErrKind(err)
		res.Labels = append(res.Labels, "error:"+f+"/"+kind)
		switch {
		case kind == "compression":
			res.f04("accepted-compression-fails", fmt.Sprintf("Package fails for the compression setting %q, which the configuration schema accepts: %v", strings.TrimPrefix(comp, f+"/"), err))
		case cs.MustBuild:
			res.f04("valid-configuration-fails", "Package fails for a configuration that is valid by construction: "+err.Error())
		}
		return res
	}
	res.Built = true
	dec := e.analyse(fam, f, s, data, res)
	if res.DecodeErr != nil || dec == nil {
		res.Labels = append(res.Labels, "error:"+f+"/undecodable")
		return res
	}
	shape := c34ShapeClass(f, dec.Members, dec.Bodies)
	res.Labels = append(res.Labels, fmt.Sprintf("members<=%d", bucket(res.Members)))
	res.Key = strings.Join([]string{f, cs.Class, shape, comp, signed, fmt.Sprint(nscripts), fmt.Sprint(info.Changelog != ""), fmt.Sprint(s.MTime == wire.ZeroTime)}, "|")
	return res
}

func c34Script(info *nfpm.Info, sel string) string {
	switch sel {
	case "Scripts.PreInstall":
		return info.Scripts.PreInstall
	case "Scripts.PostInstall":
		return info.Scripts.PostInstall
	case "Scripts.PreRemove":
		return info.Scripts.PreRemove
	case "Scripts.PostRemove":
		return info.Scripts.PostRemove
	case "Deb.Scripts.Rules":
		return info.Deb.Scripts.Rules
	case "Deb.Scripts.Templates":
		return info.Deb.Scripts.Templates
	case "Deb.Scripts.Config":
		return info.Deb.Scripts.Config
	case "APK.Scripts.PreUpgrade":
		return info.APK.Scripts.PreUpgrade
	case "APK.Scripts.PostUpgrade":
		return info.APK.Scripts.PostUpgrade
	case "ArchLinux.Scripts.PreUpgrade":
		return info.ArchLinux.Scripts.PreUpgrade
	case "ArchLinux.Scripts.PostUpgrade":
		return info.ArchLinux.Scripts.PostUpgrade
	case "RPM.Scripts.PreTrans":
		return info.RPM.Scripts.PreTrans
	case "RPM.Scripts.PostTrans":
		return info.RPM.Scripts.PostTrans
	case "RPM.Scripts.Verify":
		return info.RPM.Scripts.Verify
	}
	return ""
}

// c34Seg accumulates, over all families, what the apk-segment-model family of C04 reports.
type c34Seg struct {
	Compared, Skipped, Packages, TarCompared, TarSkipped int
	TarBy                                                map[string]int
}

// runFamily builds and analyses the cases on all cores (the driver is shared
// behind its mutex) and records the results in generation order, so that the
// report does not depend on scheduling.  prop selects whose findings are reported.
func (e *c34Env) runFamily(prop, name, rule string, cases []c34Case, seg *c34Seg) error {
	c := e.c
	fam := c.Rep.Family(name, rule)
	results := make([]*c34Result, len(cases))
	workers := runtime.NumCPU()
	if workers > 16 {
		workers = 16
	}
	if workers < 1 {
		workers = 1
	}
	var wg sync.WaitGroup
	var next atomic.Int64
	for w := 0; w < workers; w++ {
		wg.Add(1)
		go func() {
			defer wg.Done()
			for {
				i := int(next.Add(1)) - 1
				if i >= len(cases) {
					return
				}
				results[i] = e.one(name, cases[i])
			}
		}()
	}
	wg.Wait()
	var firstErr error
	for i, res := range results {
		nontrivial := res.Built && res.DecodeErr == nil && res.Err == nil
		key := res.Key
		if key == "" {
			key = fmt.Sprintf("%s|%s", res.Format, cases[i].Label)
		}
		fam.Eval(key, nontrivial)
		for _, l := range res.Labels {
			fam.Count(l)
		}
		if res.Err != nil {
			c.Rep.Note("%s %s/%s: %v", prop, name, cases[i].Label, res.Err)
			if firstErr == nil {
				firstErr = fmt.Errorf("%s/%s: %w", name, cases[i].Label, res.Err)
			}
		}
		for _, n := range res.Notes {
			c.Rep.Note("%s %s/%s: %s", prop, name, cases[i].Label, n)
		}
		fs := res.C03
		if prop == "C04" {
			fs = res.C04
		}
		for _, f := range fs {
			c.Rep.Find(f)
		}
		if seg != nil {
			seg.TarCompared += res.TarCompared
			seg.TarSkipped += res.TarSkipped
			if seg.TarBy == nil {
				seg.TarBy = map[string]int{}
			}
			for k, v := range res.TarBy {
				seg.TarBy[k] += v
			}
		}
		if seg != nil && res.Format == "apk" && res.Built {
			seg.Compared += res.SegCompared
			seg.Skipped += res.SegSkip
			seg.Packages++
		}
		if nontrivial && len(fam.Samples) < 3 && res.Members > 2 {
			fam.Sample(map[string]any{"input": res.In, "members": res.Members, "driver_checks": res.Checks, "go_checks": res.GoChecks,
				"c03_findings": len(res.C03), "c04_findings": len(res.C04)})
		}
	}
	return firstErr
}

const c34Common = " Every package is built with the real packager, decoded by the independent readers, every body hashed with crypto/md5, crypto/sha1, crypto/sha256, and judged by the Lean spec through the driver; non-trivial = built, decoded and judged; distinct = format x payload class x shape of the shipped payload x compression x signature x scripts x changelog x mtime set/unset."

// c34Families runs the five shared families for one property.
func c34Families(c *Ctx, prop string, seg *c34Seg) (*c34Env, error) {
	e, err := c34Setup(c)
	if err != nil {
		return nil, err
	}
	what := map[string]string{
		"C03": "deb md5sums + Installed-Size (c03deb), ipk Installed-Size (c03ipk), apk datahash + size + PAX SHA-1 records (c03apk), archlinux .MTREE + size (c03arch), rpm header SHA-256, payload digest, file digests, file sizes, archive and payload size tags (c03rpm).",
		"C04": "container order (c04deb, c04ipk, c04arch, c04apk, c04rpm), member-name rules of every tar (c04names), and in Go: raw block facts of every tar, archive/tar and compress/gzip read every stream to io.EOF, dpkg-deb --info/--contents and xz -t accept debs, rpm lead/alignment/trailer/compressor checks.",
	}[prop]
	var firstErr error
	keep := func(err error) {
		if err != nil && firstErr == nil {
			firstErr = err
		}
	}
	keep(e.runFamily(prop, "boundary", "boundary payloads: empty payload, only directories, only symlinks, empty files, single-character directories, unicode names, setuid/owner/mtime overrides, tree+globs, destinations written relative / climbing above the root / unclean, rpm-only types, names longer than 100 and 255 bytes, source files whose mtime has a sub-second part, one file of exactly 1/511/512/513/1023/1024/1025/4095/4096/4097 bytes, all of them together, 300 KiB random, 300 KiB zeros, both (thorough: 3 MiB random, 3 MiB zeros + 1 MiB+1), many small files (40 quick, 200 thorough) x 5 formats x compression (deb: every setting; rpm quick: three settings rotating per payload, thorough: every setting). The payloads fractional-source-mtime, setuid-owner-mtime, tree-and-globs, empty, only-dirs are also built with info.MTime unset (thorough: every payload). A build error is a finding. Checked: "+what+c34Common,
		e.boundaryCases(), seg))
	keep(e.runFamily(prop, "compression", "every compression setting (deb: \"\", gzip, xz, zstd, none; rpm: \"\", gzip, gzip:1, gzip:9, gzip:-1, xz, lzma, zstd, zstd:1, zstd:19, zstd:fastest) x payload {mixed (mtime set and unset), empty, 300 KiB random + 300 KiB zeros, all exact sizes}. A build error for a setting the schema accepts is a finding. Checked: "+what+c34Common,
		e.compressionCases(c.R.Fork("c34-compression")), seg))
	keep(e.runFamily(prop, "signed", "signed packages: deb debsign x type {unset, origin, maint, archive} x compression, deb dpkg-sig x type {unset, builder, origin, maint, archive} x compression (quick: alternating half of each grid), rpm x 8 PGP key variants x rotating compression, apk x 3 RSA keys x key name {unset, origin, x.rsa.pub}; payloads rotate over mixed, empty, big, single-character dirs, exact-4095, only-dirs; the subkey-only key files c10 records as unusable for dpkg-sig are left out. Checked: "+what+c34Common,
		e.signedCases(c.R.Fork("c34-signed")), seg))
	keep(e.runFamily(prop, "extras", "scripts {none, first, all, last; archlinux: each script alone; thorough: 6 random subsets} x 5 formats, changelog (deb incl. changelog+all scripts+dpkg-sig, rpm) x compression {\"\", xz, zstd}, each on a mixed and on an empty payload with info.MTime set and unset (SOURCE_DATE_EPOCH unset); with info.MTime unset every format is additionally built once while the sub-second part of the wall clock is below 0.3 s and once while it is above 0.6 s (the clock is an input then). Checked: "+what+c34Common,
		e.extrasCases(c.R.Fork("c34-extras")), seg))
	keep(e.runFamily(prop, "apk-segment-sizes", "apk packages whose cut segments end on every residue modulo 512: the description is lengthened one byte at a time over 512 consecutive lengths, so that .PKGINFO – the last member of the control segment when no script is set – takes every size class including an exact multiple of 512 (no padding owed); the same for the signature segment with a signing callback returning 255, 256, 511, 512, 513 and 1024 bytes; empty payload and one 512-byte file. Checked: "+what+c34Common,
		e.apkSegmentSizeCases(), seg))
	r := c.R.Fork("c34-random")
	keep(e.runFamily(prop, "random", "random content lists over a real source tree (files, config types, dirs, symlinks, trees, globs, ghost/doc/licence/readme, packager tags, partial file_info incl. setuid/setgid/sticky, owner, explicit mtime; single-character and nested directory names such as /a/x and /b/, names with spaces and unicode, exact block-size files, occasionally a 300 KiB file) x umask x mtime set/unset x 5 formats x random compression, 1/4 with a random subset of scripts, 1/6 with a changelog (deb, rpm), 1/5 signed (deb debsign/dpkg-sig, rpm, apk). Checked: "+what+c34Common,
		e.randomCases(r, c.N(400, 12000)), seg))
	return e, firstErr
}

// apkSegmentSizeCases: every residue of the .PKGINFO size modulo 512, and signature members around the block size.
func (e *c34Env) apkSegmentSizeCases() []c34Case {
	var out []c34Case
	payloads := []c34Payload{{"empty", nil}, {"exact-512", []wire.Content{c34File(e.exact[512], "/usr/share/x/block.bin")}}}
	for d := 0; d < 512; d++ {
		d := d
		p := payloads[d%2]
		s := c10derive(c34Base(p, 1700000000), map[string]any{"description_length": 20 + d}, func(info *nfpm.Info) {
			info.Description = "segment size sweep " + strings.Repeat("x", 1+d)
		})
		out = append(out, c34Case{S: s, Format: "apk", Class: "pkginfo-size", Label: fmt.Sprintf("apk-segment-sizes/pkginfo+%d", d), MustBuild: true})
	}
	for _, n := range []int{255, 256, 511, 512, 513, 1024} {
		n := n
		s := c10derive(c34Base(payloads[1], 1700000000), map[string]any{"apk.signature": map[string]any{"sign_fn": fmt.Sprintf("callback returning %d bytes", n), "key_name": "sweep"}}, func(info *nfpm.Info) {
			info.APK.Signature.KeyName = "sweep"
			info.APK.Signature.SignFn = func(io.Reader) ([]byte, error) { return bytes.Repeat([]byte{0x5a}, n), nil }
		})
		out = append(out, c34Case{S: s, Format: "apk", Class: "signature-size", Label: fmt.Sprintf("apk-segment-sizes/signature-%d", n), MustBuild: true})
	}
	return out
}

func runC03(c *Ctx) error {
	if _, err := c34Families(c, "C03", nil); err != nil {
		return err
	}
	return c03DpkgSigFiles(c)
}

func c34ASCII(s string) bool {
	for i := 0; i < len(s); i++ {
		if s[i] >= 0x80 {
			return false
		}
	}
	return true
}
