package props

import (
	"context"
	"fmt"
	"os"
	"os/exec"
	"path/filepath"
	"strconv"
	"strings"
	"time"

	"verif/harness/internal/report"
)

func init() { Registry["C11fresh"] = runC11Fresh }

// runC11Fresh is a child mode of the harness: one configuration, one format, and the packaging is the first thing this
// process does with nfpm – whatever state nfpm keeps per process (a sync.Once, a registry, a cache) is untouched.
func runC11Fresh(c *Ctx) error {
	out := os.Getenv("C11_OUT")
	yb, err := os.ReadFile(os.Getenv("C11_YAML"))
	if err != nil {
		return err
	}
	cfg, err := isoParse(string(yb))
	if err != nil {
		return os.WriteFile(out+".err", []byte("parse: "+err.Error()), 0o644)
	}
	res := isoPackage(cfg, os.Getenv("C11_FORMAT"))
	if res.Err != "" {
		return os.WriteFile(out+".err", []byte(res.Err), 0o644)
	}
	return os.WriteFile(out, res.Data, 0o644)
}

// c11FreshProcess compares packages built late in this process – after hundreds of other packagings of all formats –
// with the package a process builds as its very first act: an earlier packaging in the same process must not change
// the bytes of a later one, and that includes packagings of OTHER configurations (state kept per process).
func c11FreshProcess(c *Ctx, tree *SrcTree, scripts string) {
	fam := c.Rep.Family("first-of-a-process", "configurations without override blocks (with a maintainer, without one, with an empty one) and the dense configuration x 5 formats: the package built in this process – after every other family has packaged hundreds of configurations – twice, from freshly parsed configurations, compared byte for byte with the package a child process of the harness builds as the first thing it does; non-trivial = both built")
	self, err := os.Executable()
	if err != nil {
		c.Rep.Note("first-of-a-process: %v", err)
		return
	}
	plain := isoPlainConfigYAML(tree, scripts)
	withM := "maintainer: \"Verif <verif@example.com>\"\n"
	cfgs := []struct{ label, y string }{
		{"plain", plain},
		{"plain-without-maintainer", strings.Replace(plain, withM, "", 1)},
		{"plain-empty-maintainer", strings.Replace(plain, withM, "maintainer: \"\"\n", 1)},
		{"dense", isoDenseConfigYAML(tree, scripts)},
		{"dense-without-maintainer", strings.Replace(isoDenseConfigYAML(tree, scripts), withM, "", 1)},
	}
	for i, cf := range cfgs {
		yp := filepath.Join(c.Tmp, fmt.Sprintf("c11-fresh-%d.yaml", i))
		if err := os.WriteFile(yp, []byte(cf.y), 0o644); err != nil {
			c.Rep.Note("first-of-a-process: %v", err)
			return
		}
		for _, f := range Formats {
			outp := filepath.Join(c.Tmp, fmt.Sprintf("c11-fresh-%d-%s.pkg", i, f))
			_ = os.Remove(outp)
			_ = os.Remove(outp + ".err")
			ctx, cancel := context.WithTimeout(context.Background(), 2*time.Minute)
			run := exec.CommandContext(ctx, self, "-prop", "C11fresh", "-tier", c.Tier, "-seed", strconv.FormatUint(c.Seed, 10),
				"-out", filepath.Join(c.Tmp, "c11-fresh-child.json"), "-driver", c12Driver, "-replays", filepath.Join(c.Tmp, "c11-fresh-replays"), "-repo", c.Repo)
			run.Env = c12Env("C11_YAML="+yp, "C11_FORMAT="+f, "C11_OUT="+outp)
			cerr := run.Run()
			cancel()
			var child isoResult
			if b, err := os.ReadFile(outp); err == nil {
				child.Data = b
			} else if e, err2 := os.ReadFile(outp + ".err"); err2 == nil {
				child.Err = string(e)
			} else {
				c.Rep.Note("first-of-a-process: child for %s/%s left no result (%v)", cf.label, f, cerr)
				continue
			}
			for round := 1; round <= 2; round++ {
				cfg, err := isoParse(cf.y)
				if err != nil {
					c.Rep.Note("first-of-a-process: %s does not parse: %v", cf.label, err)
					break
				}
				here := isoPackage(cfg, f)
				fam.Eval(fmt.Sprintf("%s|%s|%d", cf.label, f, round), here.Err == "" && child.Err == "")
				fam.Count(f)
				if !here.equal(child) {
					c.Rep.Find(report.Finding{Property: "C11", Family: "first-of-a-process", Shape: "package-differs-from-first-of-a-process:" + f,
						What:  fmt.Sprintf("the %s package built from the configuration %q late in a process that has packaged other configurations differs from the one a process builds first: %s", f, cf.label, isoDescribeDiff(here, child)),
						Input: map[string]any{"configuration": cf.y, "format": f, "round": round}})
					break
				}
			}
		}
	}
}
