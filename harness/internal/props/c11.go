package props

import (
	"bytes"
	"crypto/sha256"
	"encoding/hex"
	"fmt"
	"os"
	"path/filepath"
	"reflect"
	"regexp"
	"strconv"
	"strings"
	"time"

	"github.com/goreleaser/nfpm/v2"
	"github.com/goreleaser/nfpm/v2/files"
	"verif/harness/internal/report"
	"verif/harness/internal/rng"
)

func init() { Registry["C11"] = runC11 }

// ---- configuration generator shared by C11 and C12 ----

// isoChangelogSource is copied next to the scripts when a configuration asks for a changelog.
var isoChangelogSource = "/repo/testdata/changelog.yaml"

var isoScriptBodies = map[string]string{
	"preinstall.sh":  "#!/bin/sh\necho preinstall\n",
	"postinstall.sh": "#!/bin/sh\necho postinstall \"$1\"\n",
	"preremove.sh":   "#!/bin/sh\necho preremove\n",
	"postremove.sh":  "#!/bin/sh\nexit 0\n",
	"alt-post.sh":    "#!/bin/sh\necho override postinstall\n",
}

func isoCopyFile(src, dst string) error {
	b, err := os.ReadFile(src)
	if err != nil {
		return err
	}
	return os.WriteFile(dst, b, 0o644)
}

// isoEnsureAux writes the script files (and the changelog copy) once.
func isoEnsureAux(scriptsDir string) (changelog string) {
	_ = os.MkdirAll(scriptsDir, 0o755)
	for n, body := range isoScriptBodies {
		p := filepath.Join(scriptsDir, n)
		if _, err := os.Stat(p); err != nil {
			_ = os.WriteFile(p, []byte(body), 0o644)
		}
	}
	cl := filepath.Join(scriptsDir, "changelog.yaml")
	if _, err := os.Stat(cl); err != nil {
		if err := isoCopyFile(isoChangelogSource, cl); err != nil {
			return ""
		}
	}
	return cl
}

func isoYAMLList(items []string) string {
	qs := make([]string, len(items))
	for i, s := range items {
		qs[i] = strconv.Quote(s)
	}
	return "[" + strings.Join(qs, ", ") + "]"
}

// isoPartialFileInfo renders an incomplete file_info block (the shape whose
// defaults nfpm has to fill in) at the given indentation; "" = no block.
func isoPartialFileInfo(r *rng.R, indent string, allowNone bool) string {
	n := 4
	if allowNone {
		n = 6
	}
	switch r.Intn(n) {
	case 0:
		return indent + "file_info:\n" + indent + "  owner: app\n"
	case 1:
		return indent + "file_info:\n" + indent + "  mode: 0750\n"
	case 2:
		return indent + "file_info:\n" + indent + "  owner: app\n" + indent + "  mode: 0750\n"
	case 3:
		return indent + "file_info:\n" + indent + "  group: staff\n"
	}
	return ""
}

// isoDenseConfigYAML is the deterministic first configuration of every family: every feature at once,
// entries addressed to one packager INTERLEAVED with entries for all (so that filtering by packager has
// something to drop before something it keeps), entries with complete-but-for-the-mode file_info whose
// source exists, maps and lists both in the base and in an override, and an override block for every format.
func isoDenseConfigYAML(tree *SrcTree, scriptsDir string) string {
	isoEnsureAux(scriptsDir)
	q := strconv.Quote
	src := func(rel string) string { return q(filepath.Join(tree.Root, rel)) }
	script := func(n string) string { return q(filepath.Join(scriptsDir, n)) }
	var b strings.Builder
	b.WriteString("name: isodense\narch: amd64\nversion: \"1.2.3-rc1+git5\"\nrelease: \"2\"\nmtime: 2023-11-14T22:13:20Z\n")
	b.WriteString("description: \"dense isolation package\\nsecond line\"\nmaintainer: \"Verif <verif@example.com>\"\nlicense: MIT\nhomepage: https://example.com\n")
	// relation items that in-place "normalisation" would visibly change: version constraints with blanks, an order that
	// is not sorted, a repeated item, upper case
	b.WriteString("depends: [\"zlib (>= 1.2.11)\", \"libc\", \"bash (>= 4.0)\", \"libc\"]\nprovides: [\"isodense-virtual = 1.0\", \"Isodense-Compat\"]\nrecommends: [\"curl\"]\nconflicts: [\"old-iso (< 2.0)\"]\nreplaces: [\"old-iso\", \"older-iso (<= 1.0)\"]\n")
	b.WriteString("rpm:\n  buildhost: buildhost.example\n  group: Base\n")
	b.WriteString("deb:\n  fields:\n    Bugs: base-bugs\n    Origin: base-origin\n")
	b.WriteString("ipk:\n  fields:\n    Custom: base-custom\n    Other: base-other\n")
	fmt.Fprintf(&b, "scripts:\n  preinstall: %s\n  postinstall: %s\n", script("preinstall.sh"), script("postinstall.sh"))
	b.WriteString("contents:\n")
	fmt.Fprintf(&b, "  - src: %s\n    dst: /usr/share/doc/isodense/README.Debian\n    packager: deb\n", src("share/doc/README"))
	fmt.Fprintf(&b, "  - src: %s\n    dst: /usr/bin/tool\n", src("bin/tool"))
	fmt.Fprintf(&b, "  - src: %s\n    dst: /usr/share/doc/isodense/README.rpm\n    packager: rpm\n    type: doc\n", src("share/doc/README"))
	fmt.Fprintf(&b, "  - src: %s\n    dst: /etc/isodense/app.conf\n    type: config|noreplace\n", src("etc/app.conf"))
	b.WriteString("  - dst: /var/lib/isodense-apk\n    type: dir\n    packager: apk\n    file_info:\n      owner: app\n")
	b.WriteString("  - dst: /var/lib/isodense\n    type: dir\n    file_info:\n      owner: app\n      group: staff\n      mtime: 2022-01-02T03:04:05Z\n")
	fmt.Fprintf(&b, "  - src: %s\n    dst: /usr/bin/tool-link\n    type: symlink\n    file_info:\n      owner: app\n      group: staff\n      mtime: 2022-01-02T03:04:05Z\n", q(filepath.Join(tree.Root, "bin/tool")))
	fmt.Fprintf(&b, "  - src: %s\n    dst: /usr/share/doc/isodense/README.ipk\n    packager: ipk\n", src("share/doc/README"))
	fmt.Fprintf(&b, "  - src: %s\n    dst: /usr/share/licenses/isodense/LICENSE\n    type: licence\n    packager: rpm\n    file_info:\n      owner: app\n      group: staff\n      mtime: 2022-01-02T03:04:05Z\n", src("share/doc/LICENSE"))
	b.WriteString("  - dst: /var/log/isodense.log\n    type: ghost\n    file_info:\n      owner: app\n      group: staff\n      mtime: 2022-01-02T03:04:05Z\n")
	fmt.Fprintf(&b, "  - src: %s\n    dst: /opt/isodense\n    type: tree\n", src("tree"))
	fmt.Fprintf(&b, "  - src: %s\n    dst: /usr/share/doc/isodense/README.arch\n    packager: archlinux\n", src("share/doc/README"))
	fmt.Fprintf(&b, "  - src: %s\n    dst: /usr/share/isodense/empty\n", src("share/empty"))
	b.WriteString("overrides:\n")
	b.WriteString("  deb:\n    depends: [\"deb-only-dep\"]\n    umask: 0077\n    deb:\n      compression: xz\n      fields:\n        Bugs: deb-override-bugs\n        Extra: deb-extra\n")
	b.WriteString("  rpm:\n    depends: [\"rpm-only-dep\"]\n    rpm:\n      group: G\n      compression: zstd\n      signature:\n        key_id: abc\n")
	fmt.Fprintf(&b, "  apk:\n    provides: [\"apk-virtual\"]\n    scripts:\n      postinstall: %s\n    apk:\n      signature:\n        key_name: isokey\n", script("alt-post.sh"))
	b.WriteString("  ipk:\n    recommends: [\"ipk-rec\"]\n    ipk:\n      abi_version: \"2\"\n      fields:\n        Custom: ipk-override-custom\n        Extra: z\n")
	b.WriteString("  archlinux:\n    depends: [\"arch-only-dep\"]\n    umask: 0027\n    archlinux:\n      pkgbase: isobase\n")
	return b.String()
}

// isoPlainConfigYAML is the deterministic configuration WITHOUT any override block: Config.Get then hands every
// packager an Info whose slices and maps are the configuration's own (nothing was merged into a copy), so a packager
// that writes through them writes into the configuration.  It configures a changelog and has user entries at the
// places packagers generate entries at (of types / with tags that keep every packaging successful).
func isoPlainConfigYAML(tree *SrcTree, scriptsDir string) string {
	changelog := isoEnsureAux(scriptsDir)
	q := strconv.Quote
	src := func(rel string) string { return q(filepath.Join(tree.Root, rel)) }
	var b strings.Builder
	b.WriteString("name: isoplain\narch: arm7\nversion: \"1.4.0-rc1\"\nmtime: 2023-11-14T22:13:20Z\ndescription: no override blocks\nmaintainer: \"Verif <verif@example.com>\"\n")
	b.WriteString("depends: [/bin/sh, libc, \"zlib (>= 1.2)\"]\nrecommends: [/usr/bin/perl, less]\nprovides: [virt]\nrpm:\n  buildhost: buildhost.example\ndeb:\n  fields:\n    Bugs: x\nipk:\n  fields:\n    Maintainer: dup\n    Custom: y\n")
	if changelog != "" {
		fmt.Fprintf(&b, "changelog: %s\n", q(changelog))
	}
	fmt.Fprintf(&b, "scripts:\n  postinstall: %s\n", q(filepath.Join(scriptsDir, "postinstall.sh")))
	b.WriteString("contents:\n")
	fmt.Fprintf(&b, "  - src: %s\n    dst: /usr/share/doc/isoplain/changelog.Debian.gz\n    type: doc\n", src("share/doc/README"))
	fmt.Fprintf(&b, "  - src: %s\n    dst: /usr/bin/tool\n", src("bin/tool"))
	// names an archive or a file list has to quote (blank, non-ASCII, number sign)
	fmt.Fprintf(&b, "  - src: %s\n    dst: \"/opt/iso plain/t o o l #1\"\n", src("bin/tool"))
	fmt.Fprintf(&b, "  - src: /opt/iso plain/t o o l\n    dst: \"/opt/iso plain/lïnk to it\"\n    type: symlink\n")
	fmt.Fprintf(&b, "  - src: %s\n    dst: /etc/app/app.conf\n    type: config|noreplace\n", src("etc/app.conf"))
	fmt.Fprintf(&b, "  - src: %s\n    dst: /usr/share/doc/isoplain/README.rpm\n    packager: rpm\n    type: readme\n", src("share/doc/README"))
	b.WriteString("  - dst: /var/lib/isoplain\n    type: dir\n    file_info:\n      owner: app\n")
	b.WriteString("  - dst: /var/log/isoplain.log\n    type: ghost\n")
	fmt.Fprintf(&b, "  - src: %s\n    dst: /opt/isoplain\n    type: tree\n", src("tree"))
	b.WriteString("  - src: /usr/lib/isoplain/no-such-target\n    dst: /usr/bin/tool-link\n    type: symlink\n")
	return b.String()
}

// genIsoConfigYAML produces the text of an nfpm configuration whose sources
// point into tree; every random choice comes from r.
func genIsoConfigYAML(r *rng.R, tree *SrcTree, scriptsDir string) string {
	changelog := isoEnsureAux(scriptsDir)
	q := strconv.Quote
	src := func(rel string) string { return q(filepath.Join(tree.Root, rel)) }
	script := func(n string) string { return q(filepath.Join(scriptsDir, n)) }
	var b strings.Builder
	name := rng.Pick(r, []string{"isoapp", "isoapp-tools", "libiso1"})
	fmt.Fprintf(&b, "name: %s\narch: %s\n", name, rng.Pick(r, []string{"amd64", "amd64", "386", "arm6", "arm7", "arm5", "arm64", "all", "mips64le"}))
	fmt.Fprintf(&b, "version: %s\n", q(rng.Pick(r, []string{"1.2.3", "2.0.0-rc1", "v0.9.1", "1.0.0-beta.2+git5", "3.1.4"})))
	if r.Chance(1, 3) {
		fmt.Fprintf(&b, "release: %s\n", q(rng.Pick(r, []string{"1", "2", "3"})))
	}
	if r.Chance(1, 5) {
		b.WriteString("prerelease: beta1\n")
	}
	if r.Chance(1, 5) {
		b.WriteString("epoch: \"1\"\n")
	}
	b.WriteString("mtime: 2023-11-14T22:13:20Z\n")
	fmt.Fprintf(&b, "description: %s\n", q(rng.Pick(r, []string{"isolation test package", "first line\nsecond line", "tool"})))
	if r.Chance(3, 4) {
		b.WriteString("maintainer: \"Verif <verif@example.com>\"\n")
	} else if r.Bool() {
		b.WriteString("maintainer: \"\"\n")
	}
	if r.Chance(1, 2) {
		b.WriteString("section: utils\npriority: extra\n")
	}
	if r.Chance(1, 2) {
		b.WriteString("license: MIT\nhomepage: https://example.com\nvendor: Verif\n")
	}
	if r.Chance(1, 6) {
		b.WriteString("umask: 0027\n")
	}
	for _, rel := range []string{"depends", "recommends", "suggests", "conflicts", "replaces", "provides"} {
		if r.Chance(1, 2) {
			n := 1 + r.Intn(3)
			var l []string
			for i := 0; i < n; i++ {
				l = append(l, fmt.Sprintf("%s-%s%d%s", rel[:3], rng.Pick(r, []string{"zlib", "libc", "bash", "Foo"}), n-i, rng.Pick(r, []string{"", "", " (>= 1.2)", " = 2.0-1", " (< 3)"})))
			}
			fmt.Fprintf(&b, "%s: %s\n", rel, isoYAMLList(l))
		}
	}
	// rpm block: buildhost always (reproducible builds)
	b.WriteString("rpm:\n  buildhost: buildhost.example\n")
	if r.Chance(1, 3) {
		b.WriteString("  group: Base\n")
	}
	if r.Chance(1, 3) {
		b.WriteString("  summary: short summary\n")
	}
	if r.Chance(1, 2) {
		b.WriteString("deb:\n  fields:\n    Bugs: x\n")
		if r.Chance(1, 3) {
			b.WriteString("  breaks: [oldiso]\n")
		}
	}
	if r.Chance(1, 2) {
		b.WriteString("ipk:\n  fields:\n    Maintainer: dup\n    Custom: y\n")
		if r.Chance(1, 3) {
			b.WriteString("  tags: [t1, t2]\n")
		}
	}
	if r.Chance(1, 4) {
		b.WriteString("archlinux:\n  packager: \"Packer <packer@example.com>\"\n")
	}
	hasChangelog := changelog != "" && r.Chance(1, 2)
	if hasChangelog {
		fmt.Fprintf(&b, "changelog: %s\n", q(changelog))
	}
	if r.Chance(2, 3) {
		b.WriteString("scripts:\n")
		some := false
		for _, s := range []string{"preinstall", "postinstall", "preremove", "postremove"} {
			if r.Bool() {
				fmt.Fprintf(&b, "  %s: %s\n", s, script(s+".sh"))
				some = true
			}
		}
		if !some {
			fmt.Fprintf(&b, "  postinstall: %s\n", script("postinstall.sh"))
		}
	}
	// contents
	b.WriteString("contents:\n")
	fmt.Fprintf(&b, "  - src: %s\n    dst: /usr/bin/tool\n", src("bin/tool"))
	if r.Chance(2, 3) {
		fmt.Fprintf(&b, "  - src: %s\n    dst: /usr/share/%s/LICENSE\n", src("share/doc/LICENSE"), name)
		if r.Chance(1, 3) {
			b.WriteString("    file_info:\n      mode: 0444\n      owner: app\n")
		}
	}
	if r.Chance(2, 3) {
		fmt.Fprintf(&b, "  - src: %s\n    dst: /etc/app/app.conf\n    type: %s\n", src("etc/app.conf"), rng.Pick(r, []string{"config", "config|noreplace"}))
	}
	if r.Chance(2, 3) {
		fmt.Fprintf(&b, "  - src: %s\n    dst: /etc/app/conf.d\n", q(filepath.Join(tree.Root, "etc/conf.d")+"/*.conf"))
		if r.Chance(1, 3) {
			b.WriteString("    type: config\n")
		}
		if r.Chance(1, 3) {
			b.WriteString("    file_info:\n      mode: 0640\n")
		}
	}
	// a directory with PARTIAL file_info: always present
	fmt.Fprintf(&b, "  - dst: /var/lib/%s\n    type: dir\n", name)
	b.WriteString(isoPartialFileInfo(r, "    ", false))
	if r.Chance(1, 3) {
		b.WriteString("  - dst: /var/cache/app\n    type: dir\n")
		b.WriteString(isoPartialFileInfo(r, "    ", true))
	}
	if r.Chance(3, 4) {
		// target: a path that does not exist on the build host, or a file of the tree
		tgt := "/usr/lib/isoapp/no-such-target"
		if r.Chance(1, 3) {
			tgt = filepath.Join(tree.Root, "bin/tool")
		}
		fmt.Fprintf(&b, "  - src: %s\n    dst: /usr/bin/tool-link\n    type: symlink\n", q(tgt))
		b.WriteString(isoPartialFileInfo(r, "    ", true))
	}
	if r.Chance(2, 3) {
		b.WriteString("  - dst: /var/log/app.log\n    type: ghost\n")
		b.WriteString(isoPartialFileInfo(r, "    ", true))
	}
	if r.Chance(1, 2) {
		fmt.Fprintf(&b, "  - src: %s\n    dst: /opt/%s\n    type: tree\n", src("tree"), name)
		if r.Chance(1, 3) {
			b.WriteString("    file_info:\n      owner: app\n")
		}
	}
	if r.Chance(1, 2) {
		fmt.Fprintf(&b, "  - src: %s\n    dst: /usr/share/doc/%s/README.Debian\n    packager: deb\n", src("share/doc/README"), name)
	}
	if r.Chance(1, 2) {
		fmt.Fprintf(&b, "  - src: %s\n    dst: /usr/share/doc/%s/README.rpm\n    packager: rpm\n", src("share/doc/README"), name)
		if r.Chance(1, 2) {
			b.WriteString("    type: doc\n")
		}
	}
	if r.Chance(1, 4) {
		fmt.Fprintf(&b, "  - dst: /var/lib/%s-apk\n    type: dir\n    packager: apk\n    file_info:\n      owner: app\n", name)
	}
	if hasChangelog && r.Chance(2, 3) {
		// a user entry at the very path deb generates its changelog at – of a type (or with a tag) that keeps it out
		// of the deb, so that every packaging succeeds: the rpm (or every other format) ships it
		fmt.Fprintf(&b, "  - src: %s\n    dst: /usr/share/doc/%s/changelog.Debian.gz\n", src("share/doc/README"), name)
		if r.Bool() {
			b.WriteString("    type: doc\n")
		} else {
			b.WriteString("    packager: rpm\n")
		}
	}
	// overrides for 0..3 formats
	nb := r.Intn(4)
	if nb > 0 {
		fs := append([]string{}, Formats...)
		r.Shuffle(len(fs), func(i, j int) { fs[i], fs[j] = fs[j], fs[i] })
		b.WriteString("overrides:\n")
		for _, f := range fs[:nb] {
			fmt.Fprintf(&b, "  %s:\n", f)
			wrote := false
			if r.Chance(2, 3) {
				fmt.Fprintf(&b, "    depends: %s\n", isoYAMLList([]string{f + "-only-dep", "x"}))
				wrote = true
			}
			if r.Chance(1, 4) {
				b.WriteString("    umask: 0077\n")
				wrote = true
			}
			if r.Chance(1, 4) {
				fmt.Fprintf(&b, "    scripts:\n      postinstall: %s\n", script("alt-post.sh"))
				wrote = true
			}
			if r.Chance(1, 4) {
				fmt.Fprintf(&b, "    contents:\n      - src: %s\n        dst: /usr/bin/tool\n      - dst: /var/lib/%s-%s\n        type: dir\n", src("bin/tool"), name, f)
				b.WriteString(isoPartialFileInfo(r, "        ", false))
				wrote = true
			}
			if r.Chance(2, 3) || !wrote {
				switch f {
				case "deb":
					fmt.Fprintf(&b, "    deb:\n      compression: %s\n", rng.Pick(r, []string{"xz", "zstd", "none", "gzip"}))
				case "rpm":
					b.WriteString("    rpm:\n      group: G\n      signature:\n        key_id: abc\n")
					if r.Bool() {
						fmt.Fprintf(&b, "      compression: %s\n", rng.Pick(r, []string{"gzip", "zstd", "xz"}))
					}
				case "apk":
					b.WriteString("    apk:\n      signature:\n        key_name: isokey\n")
				case "ipk":
					b.WriteString("    ipk:\n      abi_version: \"2\"\n      fields:\n        Priority: dup\n        Extra: z\n")
				case "archlinux":
					b.WriteString("    archlinux:\n      pkgbase: isobase\n")
				}
			}
		}
	}
	return b.String()
}

// ---- the operations of the property ----

func isoParse(y string) (*nfpm.Config, error) {
	cfg, err := nfpm.ParseWithEnvMapping(strings.NewReader(y), func(string) string { return "" })
	if err != nil {
		return nil, err
	}
	return &cfg, nil
}

// isoResult is a package or the error text of the packaging step.
type isoResult struct {
	Data []byte
	Err  string
}

func (a isoResult) equal(b isoResult) bool { return a.Err == b.Err && bytes.Equal(a.Data, b.Data) }

func isoDescribeDiff(got, want isoResult) string {
	if got.Err != "" || want.Err != "" {
		return fmt.Sprintf("error %q vs fresh error %q (sizes %d vs %d)", got.Err, want.Err, len(got.Data), len(want.Data))
	}
	n := len(got.Data)
	if len(want.Data) < n {
		n = len(want.Data)
	}
	off := n
	for i := 0; i < n; i++ {
		if got.Data[i] != want.Data[i] {
			off = i
			break
		}
	}
	return fmt.Sprintf("first differing offset %d; size %d vs %d from a freshly parsed configuration", off, len(got.Data), len(want.Data))
}

// isoPackage is the packaging step of the CLI: Get(format), WithDefaults, Package.
func isoPackage(cfg *nfpm.Config, f string) isoResult { return isoPackageNamed(cfg, f, false) }

// isoPackageNamed is the CLI's packaging step; with askName it first asks for the conventional file name on the
// very Info it then packages – what `nfpm package` does when the target is a directory or omitted.
func isoPackageNamed(cfg *nfpm.Config, f string, askName bool) (res isoResult) {
	// a panic inside the packaging code (shared state corrupted by a concurrent packaging, say) is an outcome to
	// compare and report with its input, not a reason to lose the run
	defer func() {
		if r := recover(); r != nil {
			res = isoResult{Err: fmt.Sprintf("panic while packaging: %v", r)}
		}
	}()
	info, err := cfg.Get(f)
	if err != nil {
		return isoResult{Err: "get: " + err.Error()}
	}
	info = nfpm.WithDefaults(info)
	p, err := nfpm.Get(f)
	if err != nil {
		return isoResult{Err: err.Error()}
	}
	if askName {
		_ = p.ConventionalFileName(info)
	}
	var buf bytes.Buffer
	if err := p.Package(info, &buf); err != nil {
		return isoResult{Err: "package: " + err.Error()}
	}
	return isoResult{Data: buf.Bytes()}
}

// isoFileName is the file-name step: on its own Get result, value discarded.
func isoFileName(cfg *nfpm.Config, f string) {
	info, err := cfg.Get(f)
	if err != nil {
		return
	}
	info = nfpm.WithDefaults(info)
	if p, err := nfpm.Get(f); err == nil {
		_ = p.ConventionalFileName(info)
	}
}

// isoBaselines packages every format from its own freshly parsed configuration.
func isoBaselines(y string) (map[string]isoResult, error) {
	res := map[string]isoResult{}
	for _, f := range Formats {
		cfg, err := isoParse(y)
		if err != nil {
			return nil, err
		}
		res[f] = isoPackage(cfg, f)
	}
	return res, nil
}

type isoOp struct{ Kind, Format string }

func (o isoOp) String() string {
	if o.Kind == "validate" {
		return "validate"
	}
	return o.Kind + "(" + o.Format + ")"
}

func isoOpsStrings(seq []isoOp) []string {
	res := make([]string, len(seq))
	for i, o := range seq {
		res[i] = o.String()
	}
	return res
}

// ---- snapshots ----

type isoKV struct{ K, V string }

func isoSnapContents(pfx string, cs files.Contents, out *[]isoKV) {
	*out = append(*out, isoKV{pfx + ".len", strconv.Itoa(len(cs))})
	for i, c := range cs {
		p := fmt.Sprintf("%s[%d]", pfx, i)
		if c == nil {
			*out = append(*out, isoKV{p, "nil"})
			continue
		}
		*out = append(*out, isoKV{p + ".src", c.Source}, isoKV{p + ".dst", c.Destination}, isoKV{p + ".type", c.Type},
			isoKV{p + ".packager", c.Packager}, isoKV{p + ".expand", strconv.FormatBool(c.Expand)})
		if c.FileInfo == nil {
			*out = append(*out, isoKV{p + ".file_info", "nil"})
			continue
		}
		mt := "zero"
		if !c.FileInfo.MTime.IsZero() {
			mt = c.FileInfo.MTime.UTC().Format(time.RFC3339)
		}
		*out = append(*out, isoKV{p + ".file_info", "set"},
			isoKV{p + ".file_info.owner", c.FileInfo.Owner}, isoKV{p + ".file_info.group", c.FileInfo.Group},
			isoKV{p + ".file_info.mode", fmt.Sprintf("%o", uint32(c.FileInfo.Mode))},
			isoKV{p + ".file_info.mtime", mt}, isoKV{p + ".file_info.size", strconv.FormatInt(c.FileInfo.Size, 10)})
	}
}

func isoSnapLeaves(pfx string, ls []leaf, out *[]isoKV) {
	for _, l := range ls {
		*out = append(*out, isoKV{pfx + l.Path, strings.TrimPrefix(l.String(), l.Path+"=")})
	}
}

// isoSnapInfo dumps every exported setting of an Info (reflection) and its contents.
func isoSnapInfo(info *nfpm.Info, out *[]isoKV) {
	var ls []leaf
	dumpLeaves(reflect.ValueOf(info).Elem(), "", &ls)
	isoSnapLeaves("info.", ls, out)
	mt := "zero"
	if !info.MTime.IsZero() {
		mt = info.MTime.UTC().Format(time.RFC3339)
	}
	*out = append(*out, isoKV{"info.MTime", mt})
	isoSnapContents("contents", info.Contents, out)
}

// isoSnapConfig: the parsed configuration itself (base settings, contents, override blocks).
func isoSnapConfig(cfg *nfpm.Config) []isoKV {
	var out []isoKV
	isoSnapInfo(&cfg.Info, &out)
	for _, f := range append(append([]string{}, Formats...), "") {
		ov, ok := cfg.Overrides[f]
		if f == "" || !ok {
			continue
		}
		if ov == nil {
			out = append(out, isoKV{"overrides." + f, "nil"})
			continue
		}
		isoSnapLeaves("overrides."+f+".", leavesOf(ov), &out)
		isoSnapContents("overrides."+f+".contents", ov.Contents, &out)
	}
	out = append(out, isoKV{"overrides.len", strconv.Itoa(len(cfg.Overrides))})
	return out
}

// isoSnapEffective: the settings the configuration yields for one format.
func isoSnapEffective(cfg *nfpm.Config, f string) []isoKV {
	info, err := cfg.Get(f)
	if err != nil {
		return []isoKV{{"get-error", err.Error()}}
	}
	var out []isoKV
	isoSnapInfo(info, &out)
	return out
}

var isoIndex = regexp.MustCompile(`\[\d+\]`)

func isoNormKey(k string) string { return isoIndex.ReplaceAllString(k, "[]") }

type isoDiff struct{ Key, Before, After string }

// isoSnapDiffs lists the keys whose value differs, in snapshot order.
func isoSnapDiffs(before, after []isoKV) []isoDiff {
	bm := make(map[string]string, len(before))
	for _, kv := range before {
		bm[kv.K] = kv.V
	}
	am := make(map[string]string, len(after))
	var res []isoDiff
	for _, kv := range after {
		am[kv.K] = kv.V
		if v, ok := bm[kv.K]; !ok {
			res = append(res, isoDiff{kv.K, "<absent>", kv.V})
		} else if v != kv.V {
			res = append(res, isoDiff{kv.K, v, kv.V})
		}
	}
	for _, kv := range before {
		if _, ok := am[kv.K]; !ok {
			res = append(res, isoDiff{kv.K, kv.V, "<absent>"})
		}
	}
	return res
}

func isoShowDiffs(ds []isoDiff) string {
	var parts []string
	for i, d := range ds {
		if i == 6 {
			parts = append(parts, fmt.Sprintf("… (%d keys in all)", len(ds)))
			break
		}
		parts = append(parts, fmt.Sprintf("%s: %q -> %q", d.Key, d.Before, d.After))
	}
	return strings.Join(parts, "; ")
}

// ---- evaluation of one operation sequence ----

type isoViolation struct {
	Shape, What string
	Explained   bool // effective-settings difference that mirrors a config-changed key
}

// isoEvalSeq runs seq on one freshly parsed configuration and returns the violations.
func isoEvalSeq(y string, seq []isoOp, base map[string]isoResult) ([]isoViolation, error) {
	cfg, err := isoParse(y)
	if err != nil {
		return nil, err
	}
	rawBefore := isoSnapConfig(cfg)
	effBefore := map[string][]isoKV{}
	for _, f := range Formats {
		effBefore[f] = isoSnapEffective(cfg, f)
	}
	var vs []isoViolation
	seen := map[string]bool{}
	for i, op := range seq {
		switch op.Kind {
		case "validate":
			_ = cfg.Validate()
		case "filename":
			isoFileName(cfg, op.Format)
		case "package", "name+package":
			got := isoPackageNamed(cfg, op.Format, op.Kind == "name+package")
			if want := base[op.Format]; !got.equal(want) {
				sh := "package-differs-from-fresh:" + op.Format + ":in-sequence"
				if !seen[sh] {
					seen[sh] = true
					vs = append(vs, isoViolation{Shape: sh, What: fmt.Sprintf("operation %d %s: %s", i, op, isoDescribeDiff(got, want))})
				}
			}
		}
	}
	rawAfter := isoSnapConfig(cfg)
	rawDiffs := isoSnapDiffs(rawBefore, rawAfter)
	explained := map[string]bool{}
	if len(rawDiffs) > 0 {
		for _, d := range rawDiffs {
			k := isoNormKey(d.Key)
			explained[k] = true
			// an override block's contents reach the effective settings as contents[]
			if j := strings.Index(k, ".contents["); j >= 0 && strings.HasPrefix(k, "overrides.") {
				explained[k[j+1:]] = true
			}
		}
		vs = append(vs, isoViolation{Shape: "config-changed:" + isoNormKey(rawDiffs[0].Key),
			What: "the parsed configuration changed: " + isoShowDiffs(rawDiffs)})
	}
	for _, f := range Formats {
		ds := isoSnapDiffs(effBefore[f], isoSnapEffective(cfg, f))
		if len(ds) == 0 {
			continue
		}
		var own []isoDiff
		for _, d := range ds {
			if !explained[isoNormKey(d.Key)] {
				own = append(own, d)
			}
		}
		if len(own) == 0 {
			vs = append(vs, isoViolation{Shape: "effective-settings-changed:" + f + ":" + isoNormKey(ds[0].Key), Explained: true,
				What: "Get(" + f + ") yields different settings afterwards (same keys as the configuration change): " + isoShowDiffs(ds)})
			continue
		}
		vs = append(vs, isoViolation{Shape: "effective-settings-changed:" + f + ":" + isoNormKey(own[0].Key),
			What: "Get(" + f + ") yields different settings afterwards: " + isoShowDiffs(own)})
	}
	return vs, nil
}

func isoHasShape(vs []isoViolation, shape string) (isoViolation, bool) {
	for _, v := range vs {
		if v.Shape == shape {
			return v, true
		}
	}
	return isoViolation{}, false
}

// isoShrink drops operations while the same shape persists.
func isoShrink(y string, seq []isoOp, base map[string]isoResult, v isoViolation) ([]isoOp, isoViolation) {
	cur := append([]isoOp{}, seq...)
	for i := 0; i < len(cur); {
		cand := append(append([]isoOp{}, cur[:i]...), cur[i+1:]...)
		vs, err := isoEvalSeq(y, cand, base)
		if err == nil {
			if v2, ok := isoHasShape(vs, v.Shape); ok {
				cur, v = cand, v2
				continue
			}
		}
		i++
	}
	return cur, v
}

func isoKey(y string) string {
	h := sha256.Sum256([]byte(y))
	return hex.EncodeToString(h[:8])
}

func isoPermutations(xs []string, visit func([]string)) {
	a := append([]string{}, xs...)
	var rec func(k int)
	rec = func(k int) {
		if k == len(a) {
			visit(append([]string{}, a...))
			return
		}
		for i := k; i < len(a); i++ {
			a[k], a[i] = a[i], a[k]
			rec(k + 1)
			a[k], a[i] = a[i], a[k]
		}
	}
	rec(0)
}

// isoCountFeatures records which generator features a configuration has.
func isoCountFeatures(fam *report.Family, y string) {
	fam.Count("configs")
	for label, needle := range map[string]string{
		"cfg:overrides": "\noverrides:", "cfg:changelog": "\nchangelog:", "cfg:entry-at-deb-changelog-path": "/changelog.Debian.gz", "cfg:ghost": "type: ghost", "cfg:symlink": "type: symlink",
		"cfg:tree": "type: tree", "cfg:glob": "*.conf", "cfg:packager-tag": "packager: ", "cfg:ipk-fields": "Maintainer: dup",
		"cfg:deb-fields": "Bugs: x", "cfg:override-umask": "umask: 0077", "cfg:scripts": "\nscripts:", "cfg:empty-maintainer": "maintainer: \"\"",
	} {
		if strings.Contains(y, needle) {
			fam.Count(label)
		}
	}
}

type isoCfg struct {
	YAML string
	Base map[string]isoResult
}

func isoCheckBaselines(c *Ctx, y string, base map[string]isoResult, noted map[string]bool) {
	for _, f := range Formats {
		if e := base[f].Err; e != "" && !noted[f+e] {
			noted[f+e] = true
			c.Rep.Note("generator: fresh %s packaging fails: %s\n%s", f, e, y)
		}
	}
}

func runC11(c *Ctx) error {
	if c.Repo != "" {
		isoChangelogSource = filepath.Join(c.Repo, "testdata", "changelog.yaml")
	}
	tree, err := MkTree(filepath.Join(c.Tmp, "src"), 0)
	if err != nil {
		return err
	}
	scripts := filepath.Join(c.Tmp, "scripts")
	noted := map[string]bool{}

	// ---- family orders ----
	fam := c.Rep.Family("orders", "for each generated configuration: all 120 orders of the five packagings (exhaustive), each order run on ONE freshly parsed configuration with the CLI's packaging step for a directory target (Config.Get, WithDefaults, ConventionalFileName, Package on the same Info); every package compared byte for byte with the package built from its own freshly parsed configuration; non-trivial = every order (five packagings)")
	fam.Exhaustive = true
	r := c.R.Fork("c11-orders")
	nCfg := c.N(6, 60)
	for k := 0; k < nCfg; k++ {
		y := genIsoConfigYAML(r, tree, scripts)
		if k == 0 {
			y = isoDenseConfigYAML(tree, scripts)
		}
		if k == 1 {
			// the same with an architecture every format translates (and none may translate twice)
			y = strings.Replace(isoDenseConfigYAML(tree, scripts), "arch: amd64", "arch: arm6", 1)
		}
		if k == 2 {
			y = isoPlainConfigYAML(tree, scripts)
		}
		if k == 3 {
			// … and for a platform other than linux (deb, rpm and ipk build; apk and archlinux refuse, every time alike)
			y = strings.Replace(isoPlainConfigYAML(tree, scripts), "arch: arm7\n", "arch: amd64\nplatform: freebsd\n", 1)
		}
		base, err := isoBaselines(y)
		if err != nil {
			c.Rep.Note("generator: configuration does not parse: %v\n%s", err, y)
			continue
		}
		isoCheckBaselines(c, y, base, noted)
		isoCountFeatures(fam, y)
		key := isoKey(y)
		isoPermutations(Formats, func(order []string) {
			cfg, err := isoParse(y)
			if err != nil {
				return
			}
			fam.Eval(key+"|"+strings.Join(order, ","), true)
			prev := "none"
			for _, f := range order {
				got := isoPackageNamed(cfg, f, true)
				if want := base[f]; !got.equal(want) {
					fam.Count("differs:" + f + ":after:" + prev)
					c.Rep.Find(report.Finding{Property: "C11", Family: "orders", Shape: "package-differs-from-fresh:" + f + ":after:" + prev,
						What:  "the " + f + " package built after " + prev + " on one parsed configuration: " + isoDescribeDiff(got, want),
						Input: map[string]any{"yaml": y, "order": order}})
				}
				prev = f
			}
		})
		if len(fam.Samples) < 2 {
			fam.Sample(map[string]any{"yaml": y})
		}
	}

	// ---- family sequences ----
	fam2 := c.Rep.Family("sequences", "random operation sequences of length 1..8 over {validate, filename(f), package(f), name+package(f) = file name asked on the very Info that is packaged next} for the five formats on one parsed configuration (drawn from a pool of generated configurations); every package compared with the package from a freshly parsed configuration; deep snapshot (reflection over every setting, every contents entry and its file_info, every override block, and the result of Get for every format) before and after the sequence; failing sequences are shrunk by dropping operations; non-trivial = at least two operations, one of them a packaging")
	r2 := c.R.Fork("c11-sequences")
	pool := make([]*isoCfg, c.N(10, 120))
	nSeq := c.N(250, 5000)
	reported := map[string]int{}
	for i := 0; i < nSeq; i++ {
		slot := r2.Intn(len(pool))
		if i < 40 {
			slot = 0 // the dense configuration gets the first sequences
		} else if i < 70 && len(pool) > 1 {
			slot = 1 // the configuration without override blocks the next ones
		} else if i < 100 && len(pool) > 2 {
			slot = 2 // … and one whose version carries a trailing blank (not a semantic version: used verbatim)
		} else if i < 125 && len(pool) > 3 {
			slot = 3 // … override blocks with nothing under them next to an entry addressed to one packager
		} else if i < 150 && len(pool) > 4 {
			slot = 4 // … a relation list one of whose items expands to nothing at parse time (the list keeps spare capacity)
		} else if i < 175 && len(pool) > 5 {
			slot = 5 // … a glob entry that collides with an entry addressed to rpm only: the rpm packaging fails, the others do not
		} else if i < 200 && len(pool) > 6 {
			slot = 6 // … an entry whose packager is spelled in capitals (it addresses no packager) next to an override block for rpm
		}
		if pool[slot] == nil {
			y := genIsoConfigYAML(r2, tree, scripts)
			if slot == 0 {
				y = isoDenseConfigYAML(tree, scripts)
			}
			if slot == 1 {
				y = isoPlainConfigYAML(tree, scripts)
			}
			if slot == 2 {
				y = strings.Replace(isoPlainConfigYAML(tree, scripts), "version: \"1.4.0-rc1\"", "version: \"1.4.0 \"", 1)
			}
			if slot == 3 {
				y = isoPlainConfigYAML(tree, scripts) + "overrides:\n  deb:\n  apk:\n  ipk:\n"
			}
			if slot == 4 {
				y = strings.Replace(isoPlainConfigYAML(tree, scripts), "depends: [/bin/sh, libc, \"zlib (>= 1.2)\"]", "depends: [\"${OPTIONAL_DEPENDENCY}\", libc, \"zlib (>= 1.2)\", \"${ANOTHER_ONE}\"]", 1)
			}
			if slot == 5 {
				// the entry addressed to rpm comes first, so that it is the glob entry that runs into it
				y = isoPlainConfigYAML(tree, scripts) + fmt.Sprintf("  - src: %q\n    dst: /etc/globbed/a.conf\n    packager: rpm\n  - src: %q\n    dst: /etc/globbed\n    type: config\n  - src: %q\n    dst: /etc/globbed2/b.conf\n    packager: deb\n  - src: %q\n    dst: /etc/globbed2\n",
					filepath.Join(tree.Root, "etc/app.conf"), filepath.Join(tree.Root, "etc/conf.d/*.conf"), filepath.Join(tree.Root, "etc/app.conf"), filepath.Join(tree.Root, "etc/conf.d/*.conf"))
			}
			if slot == 6 {
				y = isoPlainConfigYAML(tree, scripts) + fmt.Sprintf("  - src: %q\n    dst: /usr/share/isoplain/capitals\n    packager: RPM\n  - src: %q\n    dst: /usr/share/isoplain/blanks\n    packager: \" deb \"\n",
					filepath.Join(tree.Root, "etc/app.conf"), filepath.Join(tree.Root, "etc/app.conf")) + "overrides:\n  rpm:\n    depends: [only-rpm]\n  deb:\n    depends: [only-deb]\n"
			}
			base, err := isoBaselines(y)
			if err != nil {
				c.Rep.Note("generator: configuration does not parse: %v\n%s", err, y)
				continue
			}
			isoCheckBaselines(c, y, base, noted)
			isoCountFeatures(fam2, y)
			pool[slot] = &isoCfg{YAML: y, Base: base}
		}
		ic := pool[slot]
		n := 1 + r2.Intn(8)
		seq := make([]isoOp, n)
		hasPkg := false
		for j := range seq {
			switch r2.Intn(6) {
			case 0:
				seq[j] = isoOp{Kind: "validate"}
			case 1, 2:
				seq[j] = isoOp{Kind: "filename", Format: rng.Pick(r2, Formats)}
			case 3:
				seq[j] = isoOp{Kind: "name+package", Format: rng.Pick(r2, Formats)}
				hasPkg = true
			default:
				seq[j] = isoOp{Kind: "package", Format: rng.Pick(r2, Formats)}
				hasPkg = true
			}
		}
		if i >= 70 && i < 100 {
			seq[0] = isoOp{Kind: "validate"} // validation first: it must leave the settings as written
			if n == 1 {
				seq = append(seq, isoOp{Kind: "package", Format: rng.Pick(r2, Formats)})
				n, hasPkg = 2, true
			}
		}
		fam2.Eval(isoKey(ic.YAML)+"|"+strings.Join(isoOpsStrings(seq), ","), hasPkg && n >= 2)
		fam2.Count(fmt.Sprintf("length:%d", n))
		vs, err := isoEvalSeq(ic.YAML, seq, ic.Base)
		if err != nil {
			c.Rep.Note("sequence evaluation: %v", err)
			continue
		}
		if len(vs) == 0 {
			fam2.Count("clean")
		}
		for _, v := range vs {
			if v.Explained {
				fam2.Count("effective-settings-changed(same keys as config-changed)")
				continue
			}
			fam2.Count(v.Shape)
			if reported[v.Shape] >= 3 {
				continue
			}
			reported[v.Shape]++
			small, v2 := isoShrink(ic.YAML, seq, ic.Base, v)
			c.Rep.Find(report.Finding{Property: "C11", Family: "sequences", Shape: v2.Shape, What: v2.What,
				Input: map[string]any{"yaml": ic.YAML, "sequence": isoOpsStrings(small), "original_sequence": isoOpsStrings(seq)}})
		}
		if len(fam2.Samples) < 3 {
			fam2.Sample(map[string]any{"sequence": isoOpsStrings(seq), "violations": len(vs)})
		}
	}
	c11FreshProcess(c, tree, scripts)
	return nil
}
