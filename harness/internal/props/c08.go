package props

import (
	"bytes"
	"fmt"
	"path/filepath"
	"strings"

	"github.com/goreleaser/nfpm/v2"

	"verif/harness/internal/report"
	"verif/harness/internal/wire"
)

func init() { Registry["C08"] = runC08 }

func encBytesList(ss []string) string {
	var b strings.Builder
	fmt.Fprintf(&b, "%d", len(ss))
	for _, s := range ss {
		b.WriteString(" " + wire.H(s))
	}
	return b.String()
}

// typingCase checks one built package against the C08 spec and the model.
func typingCase(c *Ctx, fam *report.Family, s *PkgSpec, f string) {
	dec, plan, ok := payloadCase(c, fam, "typing", s, f)
	if !ok {
		return
	}
	in := s.Input()
	in["format"] = f
	planEnc := wire.EncContentsOut(plan)
	find := func(ans string, what string) {
		if strings.HasPrefix(ans, "violated ") {
			cl := strings.TrimPrefix(ans, "violated ")
			c.Rep.Find(report.Finding{Property: "C08", Family: "typing", Shape: f + ":" + cl, What: what + ": " + cl, Input: in})
		} else if ans != "holds" {
			c.Rep.Note("c08 answer: %s", ans)
		}
	}
	switch f {
	case "deb", "ipk":
		var body []byte
		var has bool
		if f == "deb" {
			body, has = dec.Deb.ControlFile("conffiles")
		} else {
			body, has = dec.Ipk.ControlFile("conffiles")
		}
		if !has {
			c.Rep.Find(report.Finding{Property: "C08", Family: "typing", Shape: f + ":no-conffiles-member", What: "control archive has no conffiles member", Input: in})
			return
		}
		ans, err := c.D.Batch([]string{"conffiles " + planEnc, "conflines " + wire.H(string(body))})
		if err != nil {
			c.Rep.Note("driver: %v", err)
			return
		}
		if m, _ := wire.UnH(ans[0]); m != string(body) {
			c.Rep.Disagree(report.Disagreement{Family: "typing", What: f + " conffiles body", Input: in, Model: fmt.Sprintf("%q", m), Impl: fmt.Sprintf("%q", body)})
		}
		lines, _ := wire.ParseBytesList(ans[1])
		a, _ := c.D.Ask(fmt.Sprintf("c08list %s %s %s", f, planEnc, encBytesList(lines)))
		find(a, "conffiles of the "+f+" package")
		fam.Count(fmt.Sprintf("%s:conffiles-lines<=%d", f, bucket(len(lines))))
	case "archlinux":
		var lines []string
		for _, kv := range dec.Arch.Pkginfo {
			if kv.Key == "backup" {
				lines = append(lines, kv.Value)
			}
		}
		ans, err := c.D.Ask("backup " + planEnc)
		if err != nil {
			return
		}
		ml, _ := wire.ParseBytesList(ans)
		if strings.Join(ml, "\n") != strings.Join(lines, "\n") {
			c.Rep.Disagree(report.Disagreement{Family: "typing", What: "archlinux backup lines", Input: in, Model: strings.Join(ml, "|"), Impl: strings.Join(lines, "|")})
		}
		a, _ := c.D.Ask(fmt.Sprintf("c08list %s %s %s", f, planEnc, encBytesList(lines)))
		find(a, "backup entries of the archlinux package")
	case "rpm":
		a, _ := c.D.Ask(fmt.Sprintf("c08rpm %s %s", planEnc, wire.EncMembers(dec.Members)))
		find(a, "file flags / ghost handling of the rpm package")
	case "apk":
		// apk has no notion of configuration files; only the absence of rpm-only types is checked
		a, _ := c.D.Ask(fmt.Sprintf("c08list rpm %s 0", wire.EncContentsOut(nil)))
		_ = a
		for _, p := range plan {
			switch p.Type {
			case "ghost", "doc", "licence", "license", "readme":
				c.Rep.Find(report.Finding{Property: "C08", Family: "typing", Shape: "apk:rpm-only-entry-in-other-format", What: "apk plan holds an rpm-only entry", Input: in})
			}
		}
	}
}

func runC08(c *Ctx) error {
	tree, err := MkTree(filepath.Join(c.Tmp, "src"), 0)
	if err != nil {
		return err
	}
	fam := c.Rep.Family("typing", "(a) exhaustive matrix: every entry type x every packager tag (\"\" + 5 formats) as a single entry next to one plain file, built for all 5 formats; (c) every entry type through the strict YAML parser with and without `expand: true` and ${VAR} references in src/dst; (b) random content lists mixing all entry types, config globs expanding to several files; conffiles member / rpm FILEFLAGS+FILEMODES vs cpio / archlinux backup lines decoded and compared with model and spec; non-trivial = more than one payload member")
	types := []string{"", "file", "config", "config|noreplace", "config|missingok", "dir", "symlink", "tree", "ghost", "doc", "licence", "license", "readme"}
	tags := append([]string{""}, Formats...)
	for _, ty := range types {
		for _, tg := range tags {
			e := wire.Content{Dst: "/etc/app/entry", Type: ty, Packager: tg}
			switch ty {
			case "", "file", "config", "config|noreplace", "config|missingok", "doc", "licence", "license", "readme":
				e.Src = filepath.Join(tree.Root, "etc/app.conf")
			case "symlink":
				e.Src = "/usr/bin/plain"
			case "tree":
				e.Src = filepath.Join(tree.Root, "tree/sub")
			}
			s := &PkgSpec{Raw: []wire.Content{{Src: filepath.Join(tree.Root, "bin/tool"), Dst: "/usr/bin/plain"}, e}, Umask: 0o022, MTime: 1700000000,
				Describe: map[string]any{"matrix": ty + "/" + tg}}
			for _, f := range Formats {
				typingCase(c, fam, s, f)
			}
		}
	}
	// (a1) a ghost that names an existing, readable source: still header-only, still only in rpm
	for _, tg := range tags {
		e := wire.Content{Src: filepath.Join(tree.Root, "etc/app.conf"), Dst: "/var/lib/app/state.db", Type: "ghost", Packager: tg}
		s := &PkgSpec{Raw: []wire.Content{{Src: filepath.Join(tree.Root, "bin/tool"), Dst: "/usr/bin/plain"}, e}, Umask: 0o022, MTime: 1700000000,
			Describe: map[string]any{"matrix": "ghost-with-a-readable-source/" + tg}}
		for _, f := range Formats {
			typingCase(c, fam, s, f)
		}
	}
	// (a'') configuration files whose names are not plain words: the registration (conffiles line, backup line, file
	// flag) names the path as the archive names it – no quoting of another file's syntax
	for _, ty := range []string{"config", "config|noreplace", "config|missingok"} {
		for _, dst := range []string{"/etc/my app/main settings.conf", "/etc/app/ünï cödé.conf", "/etc/app/sh#arp \"quoted\".conf", "/etc/app/back\\slash.conf"} {
			s := &PkgSpec{Raw: []wire.Content{{Src: filepath.Join(tree.Root, "bin/tool"), Dst: "/usr/bin/plain"}, {Src: filepath.Join(tree.Root, "etc/app.conf"), Dst: dst, Type: ty}}, Umask: 0o022, MTime: 1700000000,
				Describe: map[string]any{"matrix": "special-characters/" + ty, "dst": dst}}
			for _, f := range Formats {
				typingCase(c, fam, s, f)
			}
		}
	}
	// (a3) a file declared with a type of its own, and a tree that contains the same file at the same destination, in both
	// orders: planning refuses the list; a package that gets built from it must still register the file as declared
	for _, ty := range []string{"config", "config|noreplace", "config|missingok", "doc", "readme"} {
		own := wire.Content{Src: filepath.Join(tree.Root, "tree/top.txt"), Dst: "/usr/share/app/top.txt", Type: ty}
		whole := wire.Content{Src: filepath.Join(tree.Root, "tree"), Dst: "/usr/share/app", Type: "tree"}
		for oi, raw := range [][]wire.Content{{own, whole}, {whole, own}} {
			s := &PkgSpec{Raw: append([]wire.Content{{Src: filepath.Join(tree.Root, "bin/tool"), Dst: "/usr/bin/plain"}}, raw...), Umask: 0o022, MTime: 1700000000,
				Describe: map[string]any{"matrix": "typed-file-and-a-tree-that-contains-it/" + ty, "order": oi}}
			for _, f := range Formats {
				typingCase(c, fam, s, f)
			}
		}
	}
	// (a') the same matrix row for the types whose source is read, with a source that is a symbolic link in the build
	// tree (LICENSE -> ../LICENSE.md is common): the rpm-only types keep their type and flag
	for _, ty := range []string{"", "config", "config|noreplace", "doc", "licence", "license", "readme"} {
		for _, link := range []string{"links/ln", "links/unclean"} {
			e := wire.Content{Src: filepath.Join(tree.Root, link), Dst: "/usr/share/doc/app/entry", Type: ty}
			s := &PkgSpec{Raw: []wire.Content{{Src: filepath.Join(tree.Root, "bin/tool"), Dst: "/usr/bin/plain"}, e}, Umask: 0o022, MTime: 1700000000,
				Describe: map[string]any{"matrix": ty + "/source-is-a-symlink:" + link}}
			for _, f := range Formats {
				typingCase(c, fam, s, f)
			}
		}
	}
	// (c) the same entry types through the route a user's nfpm.yaml takes: parsed with the strict parser,
	// with and without `expand: true` and ${VAR} references in src/dst (expansion must not touch the type)
	for _, ty := range []string{"", "file", "config", "config|noreplace", "config|missingok", "ghost", "doc", "licence", "license", "readme", "symlink", "dir"} {
		for _, expand := range []bool{false, true} {
			src, dst := filepath.Join(tree.Root, "etc/app.conf"), "/etc/app/entry"
			if expand {
				src, dst = "${VERIF_SRC}/etc/app.conf", "/etc/${VERIF_NAME}/entry"
			}
			var e strings.Builder
			switch ty {
			case "symlink":
				fmt.Fprintf(&e, "- src: /usr/bin/plain\n  dst: %s\n  type: symlink\n", dst)
			case "dir":
				fmt.Fprintf(&e, "- dst: %s\n  type: dir\n", dst)
			case "ghost":
				fmt.Fprintf(&e, "- dst: %s\n  type: ghost\n", dst)
			case "":
				fmt.Fprintf(&e, "- src: %s\n  dst: %s\n", src, dst)
			default:
				fmt.Fprintf(&e, "- src: %s\n  dst: %s\n  type: %q\n", src, dst, ty)
			}
			if expand {
				e.WriteString("  expand: true\n")
			}
			glob := filepath.Join(tree.Root, "etc/**/*.conf")
			if expand {
				glob = "${VERIF_SRC}/etc/**/*.conf"
			}
			doc := "name: verifpkg\narch: amd64\nplatform: linux\nversion: 1.2.3\nmaintainer: Verif <verif@example.com>\ndescription: verification package\n" +
				"umask: 0o022\nmtime: 2023-11-14T22:13:20Z\nrpm:\n  buildhost: buildhost.example\ncontents:\n" +
				"- src: " + filepath.Join(tree.Root, "bin/tool") + "\n  dst: /usr/bin/plain\n" + e.String() +
				"- src: " + glob + "\n  dst: /etc/many\n  type: \"config|noreplace\"\n"
			if expand {
				doc += "  expand: true\n"
			}
			s := &PkgSpec{FromYAML: doc, Env: map[string]string{"VERIF_SRC": tree.Root, "VERIF_NAME": "app"}, Umask: 0o022, MTime: 1700000000,
				Describe: map[string]any{"yaml_route": ty, "expand": expand, "config": doc}}
			if _, err := nfpm.ParseWithEnvMapping(strings.NewReader(doc), func(k string) string { return s.Env[k] }); err != nil {
				c.Rep.Note("c08 yaml route: generated document does not parse: %v", err)
				continue
			}
			// what the document declares, built through the Go API: the parsed configuration must plan the same
			// entries with the same types (the type a user wrote is the type that gets packaged)
			declared := []wire.Content{{Src: filepath.Join(tree.Root, "bin/tool"), Dst: "/usr/bin/plain"}}
			de := wire.Content{Dst: "/etc/app/entry", Type: ty}
			switch ty {
			case "symlink":
				de.Src = "/usr/bin/plain"
			case "dir", "ghost":
			default:
				de.Src = filepath.Join(tree.Root, "etc/app.conf")
			}
			declared = append(declared, de, wire.Content{Src: filepath.Join(tree.Root, "etc/**/*.conf"), Dst: "/etc/many", Type: "config|noreplace"})
			api := &PkgSpec{Raw: declared, Umask: 0o022, MTime: 1700000000}
			for _, f := range Formats {
				pa, ea := RealPlan(api, f)
				py, ey := RealPlan(s, f)
				fam.Eval(fmt.Sprintf("yaml-route|%s|%v|%s", ty, expand, f), true)
				fam.Count("yaml-route")
				if (ea == nil) != (ey == nil) || (ea == nil && wire.EncContentsOut(pa) != wire.EncContentsOut(py)) {
					in := s.Input()
					in["format"] = f
					c.Rep.Find(report.Finding{Property: "C08", Family: "typing", Shape: f + ":parsed-entries-differ-from-declared",
						What:  fmt.Sprintf("the entries planned from the parsed document differ from the entries the document declares: declared %v (err %v), parsed %v (err %v)", pa, ea, py, ey),
						Input: in})
				}
				typingCase(c, fam, s, f)
			}
		}
	}
	r := c.R.Fork("c08")
	n := c.N(120, 2500)
	for i := 0; i < n; i++ {
		s := genPkgSpec(r, tree)
		// bias towards config globs
		if r.Bool() {
			s.Raw = append(s.Raw, wire.Content{Src: filepath.Join(tree.Root, "etc/**/*.conf"), Dst: "/etc/many", Type: "config|noreplace"})
		}
		for _, f := range Formats {
			typingCase(c, fam, s, f)
		}
	}
	// (d) one parsed configuration asked for every format in turn (what a release tool does): the typed entries of each
	// package – conffiles, backup lines, FILEFLAGS, ghosts – are those of a package built from its own fresh parse
	{
		src := filepath.Join(tree.Root, "etc/app.conf")
		var doc strings.Builder
		doc.WriteString("name: verifpkg\narch: amd64\nplatform: linux\nversion: 1.2.3\nmaintainer: Verif <verif@example.com>\ndescription: verification package\numask: 0o022\nmtime: 2023-11-14T22:13:20Z\nrpm:\n  buildhost: buildhost.example\ncontents:\n")
		for _, f := range Formats {
			fmt.Fprintf(&doc, "- src: %s\n  dst: /etc/app/%s.conf\n  type: config\n  packager: %s\n", src, f, f)
			fmt.Fprintf(&doc, "- src: %s\n  dst: /etc/app/common-after-%s.conf\n  type: \"config|noreplace\"\n", src, f)
		}
		doc.WriteString("- dst: /var/log/app.log\n  type: ghost\n- src: " + src + "\n  dst: /usr/share/doc/app/README\n  type: readme\noverrides:\n")
		for _, f := range Formats {
			fmt.Fprintf(&doc, "  %s:\n    depends: [only-%s]\n", f, f)
		}
		rev := []string{}
		for i := len(Formats) - 1; i >= 0; i-- {
			rev = append(rev, Formats[i])
		}
		for _, order := range [][]string{Formats, rev} {
			shared, perr := nfpm.Parse(strings.NewReader(doc.String()))
			if perr != nil {
				c.Rep.Note("c08 shared configuration does not parse: %v", perr)
				break
			}
			for step, f := range order {
				fresh, _ := nfpm.Parse(strings.NewReader(doc.String()))
				build := func(cfg *nfpm.Config) ([]byte, error) {
					info, err := cfg.Get(f)
					if err != nil {
						return nil, err
					}
					return BuildPkg(f, nfpm.WithDefaults(info))
				}
				got, e1 := build(&shared)
				want, e2 := build(&fresh)
				fam.Eval(fmt.Sprintf("shared-config|%v|%d|%s", order, step, f), true)
				fam.Count("shared-configuration")
				in := map[string]any{"config": doc.String(), "order": order, "step": step + 1, "format": f}
				if (e1 == nil) != (e2 == nil) {
					c.Rep.Find(report.Finding{Property: "C08", Family: "typing", Shape: f + ":typed-entries-differ-after-earlier-formats:error",
						What: fmt.Sprintf("the %s package from a configuration that was asked for %v before: %v; from a fresh parse: %v", f, order[:step], e1, e2), Input: in})
				} else if e1 == nil && !bytes.Equal(got, want) {
					what := "packages differ"
					if d1, err := DecodePkg(f, got); err == nil {
						if d2, err := DecodePkg(f, want); err == nil {
							what = fmt.Sprintf("members %d vs %d", len(d1.Members), len(d2.Members))
						}
					}
					c.Rep.Find(report.Finding{Property: "C08", Family: "typing", Shape: f + ":typed-entries-differ-after-earlier-formats",
						What: fmt.Sprintf("the %s package (config entries, conffiles / backup / FILEFLAGS, ghost, readme) from a configuration that was asked for %v before differs from the one of a fresh parse: %s", f, order[:step], what), Input: in})
				}
			}
		}
	}
	return nil
}
