// Package rng: one splitmix64 stream drives every random choice so that a
// disagreement replays exactly from VERIF_SEED.
package rng

type R struct{ s uint64 }

func New(seed uint64) *R { return &R{s: seed} }

func (r *R) U64() uint64 {
	r.s += 0x9e3779b97f4a7c15
	z := r.s
	z = (z ^ (z >> 30)) * 0xbf58476d1ce4e5b9
	z = (z ^ (z >> 27)) * 0x94d049bb133111eb
	return z ^ (z >> 31)
}

func (r *R) Intn(n int) int {
	if n <= 0 {
		return 0
	}
	return int(r.U64() % uint64(n))
}

func (r *R) Bool() bool { return r.U64()&1 == 1 }

// Chance returns true with probability num/den.
func (r *R) Chance(num, den int) bool { return r.Intn(den) < num }

func Pick[T any](r *R, xs []T) T { return xs[r.Intn(len(xs))] }

// Fork derives an independent stream (so families do not disturb each other).
func (r *R) Fork(label string) *R {
	h := r.U64()
	for i := 0; i < len(label); i++ {
		h = (h ^ uint64(label[i])) * 0x100000001b3
	}
	return New(h)
}

func (r *R) Shuffle(n int, swap func(i, j int)) {
	for i := n - 1; i > 0; i-- {
		j := r.Intn(i + 1)
		swap(i, j)
	}
}
